"""Shared machinery of the database checks (C07, C14): event histories over the dynamic fact
database, run through the implementation (public API: YP.query with the builtins, assert_fact,
clear, compiled wrapper clauses, call/1) and through the Coq model Engine/DbCursor.v.

Event (JSON):
  ['assert', front, term, via]        via: 'builtin' | 'boundvar' | 'compiled' | 'api'
  ['start', c, 'q', name, args, via]  via: 'api' | 'compiled' | 'call'
  ['start', c, 'r', term, via]        via: 'builtin' | 'boundvar' | 'compiled'
  ['next', c]   ['close', c]
  ['drop', c]                         the caller forgets the generator without closing it (`del`): CPython finalises it
  ['open', c, ev]                     ev = an assert / retractall / qall event whose variables are the PATTERN VARIABLES OF
                                      CURSOR c (the same Variable objects), read under the bindings that cursor has at that
                                      moment (it is suspended at an answer, or not started / finished = unbound)
  ['retractall', term, via]           via: 'builtin' | 'boundvar' | 'compiled'
  ['qall', name, args]
  ['clear']
Every event has its own variables (indices are local to the event).  After every event all keys of
the case are read back with all-variable queries.
"""
import itertools
from lib import terms
from lib.terms import g_term, g_list, g_nat, g_str, g_bool

NAMES = ['p', 'q', 'flag']
MAXAR = 3

def wrapper_source():
    lines = ['w_assertz(T) :- assertz(T).', 'w_asserta(T) :- asserta(T).', 'w_retract(T) :- retract(T).',
             'w_retractall(T) :- retractall(T).', 'w_nil([]).', 'w_py_clear :- py_clear.']
    for n in NAMES:
        for ar in range(MAXAR + 1):
            if ar == 0:
                lines.append('wq_%s_0 :- %s.' % (n, n))
            else:
                vs = ','.join('A%d' % i for i in range(ar))
                lines.append('wq_%s_%d(%s) :- %s(%s).' % (n, ar, vs, n, vs))
    return '\n'.join(lines) + '\n'

_WRAP = None
def wrapper_python():
    global _WRAP
    if _WRAP is None:
        from yldprolog import compiler
        _WRAP = compiler.compile_prolog_from_string(wrapper_source())
    return _WRAP

# ------------------------------------------------------------------ canonical forms

def canon_args(obs_args):
    """obs of a list of terms -> obs with variables renamed by first occurrence"""
    ts = terms.rename_canonical([terms.obs_term(o) for o in obs_args])
    return [terms.term_obs(t) for t in ts]

def canon_event_obs(o):
    if isinstance(o, list) and o:
        if o[0] == 'ans':
            return ['ans', canon_args(o[1])]
        if o[0] == 'all':
            return ['all', [canon_args(a) for a in o[1]]]
    return o

def callable_key(t):
    if t[0] == 'f':
        return (t[1], len(t[2]))
    if t[0] == 'a':
        return (t[1], 0)
    return None

def base_event(e):
    """the operation of an event ('open' events: the operation that is issued over the cursor's variables)"""
    return e[2] if e[0] == 'open' else e

def has_open(events):
    return any(e[0] == 'open' for e in events)

def case_keys(events):
    ks = []
    def add(k):
        if k is not None and list(k) not in ks:
            ks.append(list(k))
    for e in events:
        e = base_event(e)
        if e[0] == 'assert' or e[0] == 'retractall':
            add(callable_key(e[2] if e[0] == 'assert' else e[1]))
        elif e[0] == 'start':
            if e[2] == 'q':
                add((e[3], len(e[4])))
            else:
                add(callable_key(e[3]))
        elif e[0] == 'qall':
            add((e[1], len(e[2])))
    return ks

# ------------------------------------------------------------------ model side

def g_ev(e):
    k = e[0]
    if k == 'assert':
        if e[3] == 'api':
            key = callable_key(e[2])
            args = e[2][2] if e[2][0] == 'f' else []
            return '(EAssertFact %s %s %s)' % (g_str(key[0]), g_list([g_term(a) for a in args]), g_bool(not e[1]))
        return '(EAssert %s %s)' % (g_bool(e[1]), g_term(e[2]))
    if k == 'start':
        if e[2] == 'q':
            return '(EStart %s (QQuery %s %s))' % (g_nat(e[1]), g_str(e[3]), g_list([g_term(a) for a in e[4]]))
        return '(EStart %s (QRetract %s))' % (g_nat(e[1]), g_term(e[3]))
    if k == 'next':
        return '(ENext %s)' % g_nat(e[1])
    if k in ('close', 'drop'):
        # a generator that loses its last reference is finalised at once (reference counting): the same as close()
        return '(EClose %s)' % g_nat(e[1])
    if k == 'retractall':
        return '(ERetractAll %s)' % g_term(e[1])
    if k == 'qall':
        return '(EQueryAll %s %s)' % (g_str(e[1]), g_list([g_term(a) for a in e[2]]))
    if k == 'clear':
        return 'EClear'
    raise ValueError(e)

def readback_events(keys):
    return [['qall', n, [['v', i] for i in range(ar)]] for n, ar in keys]

def g_xev(e):
    if e[0] == 'open':
        return '(XOpen %s %s)' % (g_nat(e[1]), g_ev(e[2]))
    return '(XBase %s)' % g_ev(e)

def rb_mask(case):
    """which events are followed by a read-back of all keys IN THE MODEL (the implementation is read back after every
    event, for the oracle).  Histories over big predicates: not while the predicate is loaded (the first `bulk` events) and
    only after events that can change the store (assert, retractall, clear, the last of a run of next() on a retract) - the printed
    observation of a 64-fact predicate after each of 130 events is what costs time, not the model."""
    evs = case['events']
    if has_open(evs) or not case.get('bulk_rb'):
        return [True] * len(evs)
    bulk = case.get('bulk', 0)
    kind = {}
    mask = []
    for i, e in enumerate(evs):
        if e[0] == 'start':
            kind[e[1]] = e[2]
        upd = e[0] in ('assert', 'retractall', 'clear')
        if e[0] == 'next' and kind.get(e[1]) == 'r':
            # a run of next() on one retract cursor: read back after the last of them
            upd = not (i + 1 < len(evs) and evs[i + 1] == e)
        mask.append(i >= bulk and (upd or i == len(evs) - 1))
    return mask

def model_expr(case):
    evs = []
    rb = readback_events(case['keys'])
    if has_open(case['events']):
        # Engine/DbOpen.v: the cursor machine plus the bindings of every suspended cursor
        for e in case['events']:
            evs.append(g_xev(e))
            evs.extend(g_xev(r) for r in rb)
        return '(run_xevents 200 %s)' % g_list(evs)
    mask = rb_mask(case)
    for i, e in enumerate(case['events']):
        evs.append(g_ev(e))
        if mask[i]:
            evs.extend(g_ev(r) for r in rb)
    return '(run_events 200 %s)' % g_list(evs)

def split_model_obs(case, mo):
    """model observation (flat list, one per event incl. read-backs) -> list of [event_obs, readbacks] and
    the index of the first stuck event (or None)"""
    nk = len(case['keys'])
    mask = rb_mask(case)
    out = []
    stuck = None
    i = 0
    for ei in range(len(case['events'])):
        n = 1 + nk if mask[ei] else 1
        chunk = mo[i:i + n]
        i += n
        if len(chunk) < n or any(c == ['stuck'] for c in chunk):
            stuck = ei
            break
        out.append([canon_event_obs(chunk[0]), [canon_event_obs(c)[1] for c in chunk[1:]] if mask[ei] else None])
    return out, stuck

# ------------------------------------------------------------------ implementation side

class Deep(Exception):
    pass

def _drain(g, limit=10000):
    n = 0
    for _ in g:
        n += 1
        if n > limit:
            raise RuntimeError('more than %d answers' % limit)
    return n

NIL_SPELLINGS = ['atom', 'ATOM_NIL', 'makelist', 'compiled']

def _is_ground(t):
    return not terms.term_vars(t)

def _proper_list(t):
    items = []
    while t[0] == 'f' and t[1] == '.' and len(t[2]) == 2:
        items.append(t[2][0]); t = t[2][1]
    return items if t == ['a', '[]'] else None

class PolicyTerms(terms.ImplTerms):
    """ImplTerms whose atoms / ground terms / empty lists are obtained the way the case's 'objects' policy says:
    role 'fact' (terms that are asserted) or 'pat' (goals and patterns);
      objects[role] = 'table'  every atom through yp.atom(name) now
                      'held'   the object obtained the FIRST time the name (or the ground term) was needed: a caller that
                               keeps the terms it built and reuses them later, also after clear()
      objects['nil_' + role]   how [] is spelled: yp.atom('[]'), yp.ATOM_NIL, yp.makelist([]) (proper lists then through
                               yp.makelist), or the object compiled code uses for [] (handed out by the clause w_nil([]).)"""
    def __init__(self, driver, role):
        terms.ImplTerms.__init__(self, driver.yp)
        self.d = driver
        self.role = role
    def build(self, t, eng=0):
        pol = self.d.objects
        if not pol:
            return terms.ImplTerms.build(self, t, eng)
        yp = self.d.yp
        how = pol.get(self.role, 'table')
        k = t[0]
        if k == 'a':
            if t[1] == '[]':
                sp = pol.get('nil_' + self.role, 'atom')
                if sp == 'ATOM_NIL':
                    return yp.ATOM_NIL
                if sp == 'makelist':
                    return yp.makelist([])
                if sp == 'compiled':
                    return self.d.compiled_nil()
            if how == 'held':
                if t[1] not in self.d.held_atoms:
                    self.d.held_atoms[t[1]] = yp.atom(t[1])
                return self.d.held_atoms[t[1]]
            return yp.atom(t[1])
        if k == 'f':
            ground = _is_ground(t)
            key = repr(t)
            if how == 'held' and ground and key in self.d.held_terms:
                return self.d.held_terms[key]
            items = _proper_list(t)
            if items is not None and pol.get('nil_' + self.role) == 'makelist':
                obj = yp.makelist([self.build(a, eng) for a in items])
            else:
                obj = yp.functor(t[1], [self.build(a, eng) for a in t[2]])
            if how == 'held' and ground:
                self.d.held_terms[key] = obj
            return obj
        return terms.ImplTerms.build(self, t, eng)

class Driver:
    def __init__(self, objects=None):
        from yldprolog import engine as E
        self.E = E
        self.yp = E.YP()
        self.yp.load_script_from_string(wrapper_python())
        self.cursors = {}
        self.held = []
        self.objects = objects
        self.held_atoms = {}
        self.held_terms = {}

    def compiled_nil(self):
        v = self.yp.variable()
        g = self.yp.query('w_nil', [v])
        next(g)
        obj = v.get_value()
        g.close()
        return obj

    def wrap_bound(self, T, obj):
        """a goal that arrives in a bound variable"""
        G = self.yp.variable()
        h = iter(self.E.unify(G, obj))
        next(h)
        self.held.append(h)
        return G

    def once_builtin(self, name, arg):
        """run a deterministic builtin through query(): 'ok' = exactly one answer"""
        g = self.yp.query(name, [arg])
        n = 0
        try:
            next(g); n = 1
            next(g); n = 2
        except StopIteration:
            pass
        g.close()
        return ['ok'] if n == 1 else (['fail'] if n == 0 else ['multi'])

    def read_args(self, T, objs):
        try:
            return canon_args([terms.term_obs(T.read(o)) for o in objs])
        except RecursionError:
            raise Deep()

    def readback(self, keys):
        out = []
        for n, ar in keys:
            T = terms.ImplTerms(self.yp)
            vs = [T.var(i) for i in range(ar)]
            res = []
            g = self.yp.query(n, vs)
            for _ in g:
                res.append(self.read_args(T, vs))
                if len(res) > 5000:
                    g.close()
                    raise RuntimeError('read-back does not end')
            out.append(res)
        return out

    def event(self, e, T=None):
        yp = self.yp
        k = e[0]
        if k == 'open':
            # the operation e[2] written over the variables of cursor e[1]: the SAME Variable objects, so the operation
            # sees whatever that cursor has bound at this moment
            ent = self.cursors.get(e[1])
            if ent is None or e[2][0] not in ('assert', 'retractall', 'qall'):
                return self.event(e[2])
            CT = ent[1]
            role = CT.role
            CT.role = 'fact' if e[2][0] == 'assert' else 'pat'
            try:
                return self.event(e[2], CT)
            finally:
                CT.role = role
        opened = T is not None
        if T is None:
            T = PolicyTerms(self, 'fact' if k == 'assert' else 'pat')
        if k == 'assert':
            front, t, via = e[1], e[2], e[3]
            if via == 'api':
                key = callable_key(t)
                args = [T.build(a) for a in (t[2] if t[0] == 'f' else [])]
                # the value the arguments have now, read by the harness itself (not by the engine's get_value)
                val = ['value', key[0], self.read_args(T, args)]
                r = yp.assert_fact(yp.atom(key[0]), args, not front)
                r = ['ok'] if r is None else ['returned', repr(r)]
            else:
                obj = T.build(t)
                v = T.read(obj)
                val = ['value', v[1], self.read_args(T, obj._args if v[0] == 'f' else [])] if v[0] in ('f', 'a') else None
                name = 'asserta' if front else 'assertz'
                if via == 'boundvar':
                    obj = self.wrap_bound(T, obj)
                elif via == 'compiled':
                    name = 'w_' + name
                r = self.once_builtin(name, obj)
            if opened and r == ['ok'] and val is not None:
                return ['ok', val]
            return r
        if k == 'retractall':
            t, via = e[1], e[2]
            obj = T.build(t)
            orig = obj
            before = terms.rename_canonical([T.read(orig)])
            name = 'retractall'
            if via == 'boundvar':
                obj = self.wrap_bound(T, obj)
            elif via == 'compiled':
                name = 'w_retractall'
            r = self.once_builtin(name, obj)
            # retractall must leave the pattern as it was
            if r == ['ok'] and terms.rename_canonical([T.read(orig)]) != before:
                return ['ok-but-pattern-bound']
            return r
        if k == 'start':
            c = e[1]
            if e[2] == 'q':
                name, args, via = e[3], e[4], e[5]
                objs = [T.build(a) for a in args]
                if via == 'api':
                    g = yp.query(name, objs)
                elif via == 'compiled':
                    g = yp.query('wq_%s_%d' % (name, len(objs)), objs)
                else:
                    goal = yp.functor(name, objs) if objs else yp.atom(name)
                    g = yp.query('call', [self.wrap_bound(T, goal)])
                self.cursors[c] = (g, T, objs)
            else:
                t, via = e[3], e[4]
                obj = T.build(t)
                objs = obj._args if t[0] == 'f' else []
                name = 'retract'
                if via == 'boundvar':
                    obj = self.wrap_bound(T, obj)
                elif via == 'compiled':
                    name = 'w_retract'
                g = yp.query(name, [obj])
                self.cursors[c] = (g, T, objs)
            return ['ok']
        if k == 'next':
            if e[1] not in self.cursors:
                return ['bad']
            g, T, objs = self.cursors[e[1]]
            if g is None:
                return ['end']                 # dropped earlier: there is nothing left to resume
            try:
                next(g)
            except StopIteration:
                return ['end']
            return ['ans', self.read_args(T, objs)]
        if k == 'close':
            if e[1] not in self.cursors:
                return ['bad']
            if self.cursors[e[1]][0] is not None:
                self.cursors[e[1]][0].close()
            return ['ok']
        if k == 'drop':
            # the caller lets go of the generator object without closing it (`del q`, a loop variable going out of
            # scope): CPython finalises a suspended generator as soon as its last reference disappears
            if e[1] not in self.cursors:
                return ['bad']
            ent = self.cursors[e[1]]
            self.cursors[e[1]] = (None, ent[1], ent[2])
            del ent
            return ['ok']
        if k == 'qall':
            objs = [T.build(a) for a in e[2]]
            res = []
            g = yp.query(e[1], objs)
            for _ in g:
                res.append(self.read_args(T, objs))
                if len(res) > 5000:
                    g.close()
                    raise RuntimeError('query does not end')
            return ['all', res]
        if k == 'clear':
            via = e[1] if len(e) > 1 else 'api'
            if via == 'api':
                r = yp.clear()
            else:
                # clear() called by a registered Python predicate that runs as a goal (directly, or from a compiled clause)
                # while other goals of this engine are suspended
                def py_clear():
                    yp.clear()
                    yield False
                yp.register_function('py_clear', py_clear)
                n = _drain(yp.query('py_clear' if via == 'py' else 'w_py_clear', []))
                r = None if n == 1 else ('%d answers' % n)
            yp.load_script_from_string(wrapper_python())
            return ['ok'] if r is None else ['returned', repr(r)]
        raise ValueError(e)

    def finish(self):
        for g, _, _ in self.cursors.values():
            if g is not None:
                g.close()
        for h in self.held:
            h.close()

def drive_events(case):
    """-> list of [event_obs, [readback per key]]; an exception of the implementation ends the list
    with ['raised', class]; a cyclic term ends it with ['deep']"""
    d = Driver(case.get('objects'))
    out = []
    try:
        for e in case['events']:
            try:
                o = d.event(e)
                rb = d.readback(case['keys'])
            except Deep:
                out.append(['deep'])
                break
            except RecursionError:
                out.append(['deep'])
                break
            except Exception as ex:
                out.append(['raised', type(ex).__name__, str(ex)[:200]])
                break
            out.append([o, rb])
    finally:
        try:
            d.finish()
        except Exception:
            pass
    return out

def strip_obs(o):
    """event observation without the value the harness read itself (['ok', ['value', name, args]] of 'open' asserts)"""
    if isinstance(o, list) and len(o) == 2 and o[0] == 'ok':
        return ['ok']
    return o

def _short(rb):
    """read-backs of big predicates: print the rows in which the two sides can differ compactly"""
    r = repr(rb)
    return r if len(r) < 1500 else r[:700] + ' ... ' + r[-700:]

def compare_events(case, io, mo):
    m, stuck = split_model_obs(case, mo)
    io = [[strip_obs(a[0]), a[1]] if len(a) == 2 else a for a in io]
    for i, (a, b) in enumerate(itertools.zip_longest(io, m)):
        if stuck is not None and i >= stuck:
            return None                      # outside the specified domain from here on
        if a is None or b is None:
            return 'event %d: implementation produced %r, model %r' % (i, a, b)
        if a == ['deep']:
            return 'event %d: implementation built a cyclic/deep term, the model did not (%r)' % (i, b)
        if a[0] == 'raised':
            return 'event %d %r: implementation raised %s (%s); model: %r' % (i, case['events'][i], a[1], a[2], b[0])
        if a[0] != b[0]:
            return 'event %d %r: implementation %r, model %r' % (i, case['events'][i], a[0], b[0])
        if b[1] is not None and a[1] != b[1]:
            return 'after event %d %r: database read back as %s, model %s' % (i, case['events'][i], _short(a[1]), _short(b[1]))
    return None

# ------------------------------------------------------------------ intrinsic oracle (no model)

def _is_one_removed(before, after):
    if len(after) != len(before) - 1:
        return False
    for i in range(len(before)):
        if before[:i] + before[i + 1:] == after:
            return True
    return False

def _is_subsequence(small, big):
    it = iter(big)
    return all(any(x == y for y in it) for x in small)

def _linear_vars(args):
    """the arguments are pairwise different variables (the pattern matches every fact and an answer IS the fact)"""
    return all(a[0] == 'v' for a in args) and len({a[1] for a in args}) == len(args)

class _Cyclic(Exception):
    pass

def _walk(t, s):
    while t[0] == 'v' and t[1] in s:
        t = s[t[1]]
    return t

def _occurs(v, t, s):
    t = _walk(t, s)
    if t[0] == 'v':
        return t[1] == v
    if t[0] == 'f':
        return any(_occurs(v, a, s) for a in t[2])
    return False

def _unify(a, b, s):
    a = _walk(a, s); b = _walk(b, s)
    if a[0] == 'v' and b[0] == 'v' and a[1] == b[1]:
        return True
    if a[0] == 'v' or b[0] == 'v':
        if b[0] != 'v' or (a[0] == 'v' and a[1] >= 1000):
            a, b = b, a                          # b is the variable that gets bound
        if _occurs(b[1], a, s):
            raise _Cyclic()
        s[b[1]] = a
        return True
    if a[0] != b[0]:
        return False
    if a[0] == 'f':
        return a[1] == b[1] and len(a[2]) == len(b[2]) and all(_unify(x, y, s) for x, y in zip(a[2], b[2]))
    return a[1] == b[1]

def _subst(t, s):
    t = _walk(t, s)
    if t[0] == 'f':
        return ['f', t[1], [_subst(a, s) for a in t[2]]]
    return t

def _shift(t):
    if t[0] == 'v':
        return ['v', 1000 + t[1]]
    if t[0] == 'f':
        return ['f', t[1], [_shift(a) for a in t[2]]]
    return t

def expected_answer(pat_args, row):
    """what a goal with the arguments pat_args answers on the stored fact `row` (a read-back row): the arguments under the
    most general unifier with a renamed copy of the fact, canonical; None = no match.  Written down independently of the
    engine and of the Coq model (first-order unification on the JSON terms); _Cyclic = outside the specified domain."""
    fact = [_shift(terms.obs_term(o)) for o in row]
    if len(fact) != len(pat_args):
        return None
    sub = {}
    for p_, f_ in zip(pat_args, fact):
        if not _unify(p_, f_, sub):
            return None
    return canon_args([terms.term_obs(_subst(p_, sub)) for p_ in pat_args])

def expected_answers(pat_args, rows):
    try:
        return [a for a in (expected_answer(pat_args, r) for r in rows) if a is not None]
    except (_Cyclic, RecursionError):
        return None

def list_oracle(case, io):
    """the property's own conditions that can be stated on the implementation alone"""
    keys = [tuple(k) for k in case['keys']]
    prev = [[] for _ in keys]
    cur_key = {}
    snap = {}          # query cursor -> [facts of its predicate when it was started (first next), answers so far, linear?]
    pat_of = {}
    # in histories with operations over the variables of open cursors a pattern can be bound from outside: no prediction
    opened_case = has_open(case['events'])
    for i, (e0, o) in enumerate(zip(case['events'], io)):
        if o == ['deep']:
            return None
        if o[0] == 'raised':
            return 'event %d %r raised %s: %s' % (i, e0, o[1], o[2])
        r, rb = o
        e = base_event(e0)
        value = r[1] if (len(r) == 2 and r[0] == 'ok') else None
        r = strip_obs(r)
        if r in (['multi'], ['ok-but-pattern-bound']) or r[0] == 'returned':
            return 'event %d %r: %s' % (i, e, r[0])
        k = None
        if e[0] == 'assert':
            k = callable_key(e[2])
        elif e[0] == 'retractall':
            k = callable_key(e[1])
        elif e[0] == 'start':
            cur_key[e[1]] = (e[3], len(e[4])) if e[2] == 'q' else callable_key(e[3])
            cur_key[e[1]] = (cur_key[e[1]], e[2])
            snap.pop(e[1], None)
            pat_of[e[1]] = e[4] if e[2] == 'q' else None
        if e[0] == 'next' and e[1] in cur_key and cur_key[e[1]][1] == 'q' and cur_key[e[1]][0] in keys:
            # "works on the facts as they were when the goal started": a query never has more answers than its predicate
            # had facts at its first next(); with an all-variables pattern its answers are exactly those facts, in order
            c = e[1]
            if c not in snap:
                facts0 = prev[keys.index(cur_key[c][0])]
                # round 4: for ANY pattern, the answers the matching facts of the snapshot give, in order (unification
                # written down here, independent of engine and model); None = abstain (a match would build a cyclic term)
                snap[c] = [facts0, 0, _linear_vars(pat_of[c]), None if opened_case else expected_answers(pat_of[c], facts0)]
            if r[0] == 'ans':
                facts, n, lin, exp = snap[c]
                if n >= len(facts):
                    return ('event %d %r: answer number %d of a query whose predicate had %d facts when it started (%r)'
                            % (i, e, n + 1, len(facts), r[1]))
                if lin and r[1] != facts[n]:
                    return ('event %d %r: answer number %d of an all-variables query is %r, the fact at that position when '
                            'it started was %r' % (i, e, n + 1, r[1], facts[n]))
                if exp is not None and n < 10 ** 8:
                    if n >= len(exp):
                        return ('event %d %r: answer number %d (%r) of a query of which only %d facts of the list it started on match'
                                % (i, e, n + 1, r[1], len(exp)))
                    if r[1] != exp[n]:
                        return ('event %d %r: answer number %d is %r; the %d. matching fact of the list the query started on gives %r'
                                % (i, e, n + 1, r[1], n + 1, exp[n]))
                snap[c][1] = n + 1
            elif r == ['end'] and snap[c][2] and snap[c][1] < len(snap[c][0]):
                return ('event %d %r: an all-variables query ended after %d answers, its predicate had %d facts when it started'
                        % (i, e, snap[c][1], len(snap[c][0])))
            elif r == ['end'] and snap[c][3] is not None and snap[c][1] < len(snap[c][3]):
                return ('event %d %r: the query ended after %d answers; %d facts of the list it started on match (next: %r)'
                        % (i, e, snap[c][1], len(snap[c][3]), snap[c][3][snap[c][1]]))
            if r == ['end']:
                snap[c][1] = 10 ** 9      # exhausted: any further answer is one too many
                snap[c][2] = False
                snap[c][3] = None
        if e[0] in ('close', 'drop') and e[1] in snap:
            snap[e[1]][1] = 10 ** 9       # closed: any further answer is one too many
            snap[e[1]][2] = False
            snap[e[1]][3] = None
        for j, kk in enumerate(keys):
            changed = rb[j] != prev[j]
            if e[0] == 'assert' and kk == k:
                if r != ['ok']:
                    return 'event %d %r: assert did not succeed exactly once' % (i, e)
                if value is not None:
                    # arguments over the variables of an open cursor: the fact is what they denote NOW
                    fact = value[2]
                else:
                    fact = canon_args([terms.term_obs(a) for a in (e[2][2] if e[2][0] == 'f' else [])])
                want = [fact] + prev[j] if e[1] else prev[j] + [fact]
                if rb[j] != want:
                    return 'event %d %r: facts of %s/%d are %r, expected %r' % (i, e0, kk[0], kk[1], rb[j], want)
            elif e[0] == 'retractall' and kk == k:
                if r != ['ok']:
                    return 'event %d %r: retractall did not succeed exactly once' % (i, e)
                if not _is_subsequence(rb[j], prev[j]):
                    return 'event %d %r: retractall changed the order or added facts' % (i, e)
            elif e[0] == 'clear':
                if rb[j]:
                    return 'event %d: facts left after clear: %r' % (i, rb[j])
            elif e[0] == 'next' and e[1] in cur_key and cur_key[e[1]] == (kk, 'r'):
                if r[0] == 'ans':
                    if not _is_one_removed(prev[j], rb[j]):
                        return 'event %d %r: an answer of retract did not remove exactly one fact (%r -> %r)' % (i, e, prev[j], rb[j])
                elif changed:
                    return 'event %d %r: retract without answer changed the facts' % (i, e)
            elif changed:
                return 'event %d %r changed the facts of %s/%d (%r -> %r)' % (i, e, kk[0], kk[1], prev[j], rb[j])
        if e[0] == 'qall':
            kk = (e[1], len(e[2]))
            if kk in keys and len(r[1]) > len(prev[keys.index(kk)]):
                return 'event %d: more answers than facts' % i
            if kk in keys and e0[0] != 'open':
                exp = expected_answers(e[2], prev[keys.index(kk)])
                if exp is not None and r[1] != exp:
                    return ('event %d %r: answers %s; the matching facts of the list, in order, give %s' % (i, e, _short(r[1]), _short(exp)))
        prev = rb
    return None

# ------------------------------------------------------------------ generation

ATOMS = ['a', 'b', 'c']

def gen_arg(rng, nv, pvar):
    q = rng.random()
    if q < pvar and nv > 0:
        return ['v', rng.randrange(nv)]
    if q < pvar + 0.08 and nv > 0:
        return ['f', 'f', [['v', rng.randrange(nv)]]]
    q = rng.random()
    if q < 0.08:
        return ['a', '[]']
    if q < 0.55:
        return ['a', rng.choice(ATOMS)]
    if q < 0.7:
        return ['i', rng.choice([1, 2])]
    if q < 0.85:
        return ['f', 'f', [['a', rng.choice(ATOMS[:2])]]]
    if q < 0.9:
        return ['s', rng.choice(['a', 'x'])]
    if q < 0.95:
        return terms.mklist([['a', 'a']], ['v', rng.randrange(nv)] if nv and rng.random() < 0.5 else None)
    return ['f', 'g', [['a', 'a'], ['i', 1]]]

def gen_goal(rng, name, ar, pvar):
    if ar == 0:
        return ['a', name] if rng.random() < 0.85 else ['f', name, []]
    nv = rng.choice([1, 2, 2, 3])
    return ['f', name, [gen_arg(rng, nv, pvar) for _ in range(ar)]]

def pick_key(rng, keys):
    return rng.choice(keys)

def shrink_events(case):
    evs = case['events']
    n = len(evs)
    # drop tails first, then single events
    for cut in (n // 2, n - 1):
        if 0 < cut < n:
            c = dict(case); c['events'] = evs[:cut]; c['keys'] = case_keys(c['events'])
            yield c
    for i in range(n):
        c = dict(case); c['events'] = evs[:i] + evs[i + 1:]; c['keys'] = case_keys(c['events'])
        yield c
    if case.get('objects'):
        c = dict(case); c.pop('objects')
        yield c
    for i, e in enumerate(evs):
        if e[0] == 'drop':
            c = dict(case); c['events'] = evs[:i] + [['close', e[1]]] + evs[i + 1:]
            yield c
        if e[0] == 'open' and e[2][0] == 'assert' and e[2][3] != 'api':
            c = dict(case); c['events'] = evs[:i] + [['open', e[1], e[2][:3] + ['api']]] + evs[i + 1:]
            yield c
        if e[0] in ('assert', 'retractall') and e[-1] != 'builtin':
            e2 = list(e); e2[-1] = 'builtin'
            c = dict(case); c['events'] = evs[:i] + [e2] + evs[i + 1:]
            yield c
        if e[0] == 'start' and e[-1] not in ('api', 'builtin'):
            e2 = list(e); e2[-1] = 'api' if e[2] == 'q' else 'builtin'
            c = dict(case); c['events'] = evs[:i] + [e2] + evs[i + 1:]
            yield c

def show_event(e):
    st = terms.show_term
    if e[0] == 'assert':
        return '%s(%s) [%s]' % ('asserta' if e[1] else 'assertz', st(e[2]), e[3])
    if e[0] == 'start':
        if e[2] == 'q':
            return 'c%d := %s(%s) [%s]' % (e[1], e[3], ','.join(st(a) for a in e[4]), e[5])
        return 'c%d := retract(%s) [%s]' % (e[1], st(e[3]), e[4])
    if e[0] in ('next', 'close', 'drop'):
        return '%s c%d' % (e[0], e[1])
    if e[0] == 'open':
        return '%s  {variables of c%d, as bound now}' % (show_event(e[2]), e[1])
    if e[0] == 'retractall':
        return 'retractall(%s) [%s]' % (st(e[1]), e[2])
    if e[0] == 'qall':
        return 'all %s(%s)' % (e[1], ','.join(st(a) for a in e[2]))
    if e[0] == 'clear' and len(e) > 1:
        return 'clear [%s]' % e[1]
    return e[0]

def gen_history(rng, nops, interleave, nkeys=None):
    """A history of about nops operations.  interleave = probability that a cursor is left suspended
    while other operations run (0 = every retract/query block is atomic)."""
    nkeys = nkeys or rng.choice([1, 2, 2, 3])
    keys = []
    while len(keys) < nkeys:
        k = (rng.choice(NAMES), rng.choice([0, 1, 1, 1, 2, 2, 3]))
        if k not in keys:
            keys.append(k)
    # most activity on the first key so that lists get long enough to matter
    def key():
        return keys[0] if rng.random() < 0.6 else rng.choice(keys)
    evs = []
    live = {}          # cursor id -> remaining planned nexts
    nextc = 0
    def fact_term(k):
        return gen_goal(rng, k[0], k[1], 0.12)
    def pat_term(k):
        return gen_goal(rng, k[0], k[1], rng.choice([0.3, 0.6, 0.9]))
    n0 = rng.choice([0, 2, 3, 4, 5])
    for _ in range(n0):
        k = key()
        evs.append(['assert', rng.random() < 0.25, fact_term(k), rng.choice(['builtin', 'api', 'api'])])
    while len(evs) < n0 + nops:
        if live and rng.random() < 0.55:
            c = rng.choice(sorted(live))
            if live[c] <= 0 or rng.random() < 0.08:
                evs.append(['close', c]); del live[c]
            else:
                evs.append(['next', c]); live[c] -= 1
                if rng.random() < 0.03:
                    evs.append(['next', c])
            continue
        q = rng.random()
        k = key()
        if q < 0.34:
            evs.append(['assert', rng.random() < 0.4, fact_term(k),
                        rng.choice(['builtin', 'builtin', 'boundvar', 'compiled', 'api'])])
        elif q < 0.62:
            c = nextc; nextc += 1
            evs.append(['start', c, 'r', pat_term(k), rng.choice(['builtin', 'builtin', 'boundvar', 'compiled'])])
            planned = rng.choice([1, 1, 2, 3, 6])
            if rng.random() < interleave:
                live[c] = planned
            else:
                evs.extend(['next', c] for _ in range(planned))
                if rng.random() < 0.7:
                    evs.append(['close', c])
        elif q < 0.84:
            c = nextc; nextc += 1
            p = pat_term(k)
            args = p[2] if p[0] == 'f' else []
            evs.append(['start', c, 'q', k[0], args, rng.choice(['api', 'api', 'compiled', 'call'])])
            planned = rng.choice([1, 2, 3, 6])
            if rng.random() < interleave:
                live[c] = planned
            else:
                evs.extend(['next', c] for _ in range(planned))
                if rng.random() < 0.7:
                    evs.append(['close', c])
        elif q < 0.93:
            evs.append(['retractall', pat_term(k), rng.choice(['builtin', 'builtin', 'boundvar', 'compiled'])])
        elif q < 0.97:
            p = pat_term(k)
            evs.append(['qall', k[0], p[2] if p[0] == 'f' else []])
        else:
            evs.append(['clear'])
    for c in sorted(live):
        if rng.random() < 0.5:
            evs.append(['next', c])
    case = {'events': evs, 'keys': case_keys(evs)}
    if rng.random() < 0.5:
        # the caller keeps term objects it built earlier and reuses them, [] arrives in its different spellings
        case['objects'] = {'fact': rng.choice(['held', 'table']), 'pat': rng.choice(['held', 'table']),
                           'nil_fact': rng.choice(NIL_SPELLINGS), 'nil_pat': rng.choice(NIL_SPELLINGS)}
        if rng.random() < 0.6 and len(evs) > 2:
            # ... across a clear(): the atom table is new, the objects the caller holds are not
            evs.insert(rng.randrange(1, max(2, len(evs) // 2)), ['clear'])
    return case

# ------------------------------------------------------------------ cursors finished in an order that is not LIFO

def _key_terms(rng, k):
    name, ar = k
    def fact():
        return gen_goal(rng, name, ar, 0.05)
    def allvars():
        return ['f', name, [['v', i] for i in range(ar)]] if ar else ['a', name]
    def pat(pv=None):
        if rng.random() < 0.7:
            return allvars()
        return gen_goal(rng, name, ar, pv if pv is not None else rng.choice([0.6, 0.9]))
    return fact, allvars, pat

def gen_nonlifo(rng):
    """Two or three cursors (queries and retracts) on ONE predicate, each started and left suspended, then FINISHED IN AN
    ORDER THAT IS NOT LAST-IN-FIRST-OUT: one or more OLDER cursors are exhausted, closed or dropped (`del`) while a YOUNGER
    one stays suspended; then the predicate is updated (assertz / asserta / retract / retractall; with and without other
    updates in between) and the younger cursor is resumed to exhaustion.  Independent callers of the Python API do this
    (two loops over the same predicate, the outer one left by break/return); nested loops of compiled code never do."""
    k = (rng.choice(NAMES), rng.choice([1, 1, 1, 2]))
    name, ar = k
    fact, allvars, pat = _key_terms(rng, k)
    evs = []
    nextc = [0]
    nfacts = [0]
    def add_fact(front=False, vias=('builtin', 'api', 'api', 'compiled', 'boundvar')):
        evs.append(['assert', front, fact(), rng.choice(vias)])
        nfacts[0] += 1
    def start(kind=None):
        c = nextc[0]; nextc[0] += 1
        kind = kind or ('q' if rng.random() < 0.7 else 'r')
        p = pat()
        if kind == 'q':
            evs.append(['start', c, 'q', name, p[2] if p[0] == 'f' else [], rng.choice(['api', 'api', 'compiled', 'call'])])
        else:
            evs.append(['start', c, 'r', p, rng.choice(['builtin', 'builtin', 'boundvar', 'compiled'])])
        return c
    def update(kinds):
        w = rng.choice(kinds)
        if w == 'assertz':
            add_fact(False)
        elif w == 'asserta':
            add_fact(True)
        elif w == 'retract':
            c = start('r')
            evs.append(['next', c])
            if rng.random() < 0.6:
                evs.append([rng.choice(['close', 'drop']), c])
        elif w == 'retractall':
            evs.append(['retractall', gen_goal(rng, name, ar, 0.5), rng.choice(['builtin', 'builtin', 'boundvar', 'compiled'])])
    ANY = ['assertz', 'assertz', 'asserta', 'retract', 'retractall']
    for _ in range(rng.choice([1, 2, 2, 3, 4])):
        add_fact(False, ('api', 'api', 'builtin'))
    for _round in range(rng.choice([1, 1, 2])):
        ncur = rng.choice([2, 2, 2, 3])
        cs = []
        for i in range(ncur):
            c = start()
            cs.append(c)
            evs.append(['next', c])                       # started: it has read its snapshot and is suspended in it
            if rng.random() < 0.15:
                evs.append(['next', c])
            if rng.random() < 0.2:
                update(ANY)                               # (sometimes) an update while the cursors are being opened
        survivor = cs[-1] if rng.random() < 0.7 else rng.choice(cs[1:])
        older = [c for c in cs if c < survivor]
        others = [c for c in cs if c != survivor]
        rng.shuffle(others)
        # at least one cursor that is older than the survivor finishes first
        first = rng.choice(older)
        others.remove(first)
        finish_now = [first] + [c for c in others if rng.random() < 0.5]
        for c in finish_now:
            mode = rng.choice(['exhaust', 'exhaust', 'close', 'drop'])
            if mode == 'exhaust':
                evs.extend(['next', c] for _ in range(nfacts[0] + 2))
            else:
                evs.append([mode, c])
            if rng.random() < 0.25:
                update(ANY)                               # with ...
        # ... and without updates between the end of the older cursor and the update that matters
        for _ in range(rng.choice([1, 1, 2])):
            update(['assertz', 'assertz', 'assertz', 'asserta', 'retract', 'retractall'])
        for i in range(nfacts[0] + 2):
            evs.append(['next', survivor])
            if rng.random() < 0.15:
                update(ANY)
        for c in cs:
            if c != survivor and c not in finish_now:
                evs.extend(['next', c] for _ in range(rng.choice([1, 2, nfacts[0] + 2])))
                if rng.random() < 0.5:
                    evs.append([rng.choice(['close', 'drop']), c])
    return {'events': evs, 'keys': case_keys(evs), 'shape': 'nonlifo'}

# ------------------------------------------------------------------ big predicates: size classes, first arguments of every kind

BIG_SIZES = [0, 1, 3, 8, 14, 15, 16, 17, 18, 15, 16, 17, 20, 24, 31, 32, 33, 40, 48, 64]
CLEAR_VIAS = ['api', 'api', 'py', 'compiledpy']

def gen_big_history(rng, maxsize=64, sizes=None):
    """ONE predicate that holds 0-3, about 16 (14..18), 20-31 or 32-64 facts (loaded first, mostly through assert_fact),
    whose FIRST ARGUMENTS are atoms only (one key / 2-3 keys: a table), atoms and integers, or a mix of atoms, integers,
    variables, structures, strings, [] in any order (possibly a variable-first fact at the very front); then queries and
    retracts with a bound (atom / integer / absent key / structure) and an unbound first argument through the API, a compiled
    clause, call/1 and goals in bound variables, left suspended while assertz (of a fact with the SAME first argument as a
    suspended goal, or any) / asserta / retract / retractall / clear / complete queries run; the size crosses the classes in
    both directions (a few more facts, a retractall of one key); cursors resumed, one of them to exhaustion."""
    name = rng.choice(NAMES)
    ar = rng.choice([1, 2, 2, 2, 3])
    prof = rng.choice(['atoms', 'atoms', 'atoms', 'onekey', 'atomint', 'mixed', 'mixed', 'mixed', 'mixed'])
    size = rng.choice(sizes or [s_ for s_ in BIG_SIZES if s_ <= maxsize])
    nkeys = rng.choice([2, 3])
    atoms = [['a', x] for x in ATOMS[:nkeys]]
    serial = [0]
    def first():
        if prof == 'onekey':
            return ['a', 'a']
        if prof == 'atoms':
            return rng.choice(atoms)
        if prof == 'atomint':
            return rng.choice(atoms[:2] + [['i', 1], ['i', 2]])
        q = rng.random()
        if q < 0.45:
            return rng.choice(atoms)
        if q < 0.6:
            return ['i', rng.choice([1, 2])]
        if q < 0.78:
            return ['v', 0]
        if q < 0.88:
            return ['f', 'f', [rng.choice(atoms + [['v', 0]])]]
        if q < 0.91:
            return ['s', 'a']                      # the string 'a' is not the atom a
        if q < 0.94:
            return ['a', '1']                      # the atom '1' is not the integer 1
        if q < 0.97:
            return ['a', '[]']
        return mklist_a()
    def mklist_a():
        return terms.mklist([['a', 'a']], ['v', 1] if rng.random() < 0.5 else None)
    def fact(fst=None):
        serial[0] += 1
        args = [fst or first()]
        for i in range(1, ar):
            q = rng.random()
            if i == 1 and q < 0.8:
                args.append(['i', serial[0]])
            elif q < 0.9:
                args.append(['v', rng.choice([0, 1])])
            else:
                args.append(rng.choice(atoms))
        return ['f', name, args]
    evs = []
    varfront = prof == 'mixed' and rng.random() < 0.6
    allfront = rng.random() < 0.1
    for i in range(size):
        fst = ['v', 0] if (varfront and i == (size - 1 if allfront else 0)) else None
        evs.append(['assert', allfront or rng.random() < 0.08, fact(fst), rng.choice(['api'] * 8 + ['builtin', 'compiled'])])
    bulk = max(0, size - 1)
    live = {}
    pfirst = {}
    nextc = [0]
    def pat_first():
        q = rng.random()
        if q < 0.6:
            return rng.choice(atoms[:2] + ([['i', 1]] if prof in ('atomint', 'mixed') else []))
        if q < 0.85:
            return ['v', 0]
        if q < 0.89:
            return ['a', 'zz']
        if q < 0.93:
            return ['f', 'f', [['v', 0]]]
        if q < 0.96:
            return rng.choice([['a', '1'], ['s', 'a'], ['a', '[]']])
        return ['i', 2]
    def pattern(bound=False):
        args = [pat_first()]
        if bound and args[0][0] not in ('a', 'i'):
            args[0] = rng.choice(atoms[:2])
        for i in range(1, ar):
            q = rng.random()
            args.append(['v', i] if q < 0.8 else (['v', 0] if q < 0.88 else ['i', rng.randrange(1, serial[0] + 2)]))
        return args
    def start(kind, bound=False):
        c = nextc[0]; nextc[0] += 1
        args = pattern(bound)
        pfirst[c] = args[0]
        if kind == 'q':
            evs.append(['start', c, 'q', name, args, rng.choice(['api', 'api', 'compiled', 'call'])])
        else:
            evs.append(['start', c, 'r', ['f', name, args], rng.choice(['builtin', 'builtin', 'boundvar', 'compiled'])])
        return c
    for _op in range(rng.choice([6, 10, 16, 24])):
        if live and rng.random() < 0.45:
            c = rng.choice(sorted(live))
            if live[c] <= 0:
                evs.append([rng.choice(['close', 'drop']), c]); del live[c]
                continue
            for _ in range(min(live[c], rng.choice([1, 1, 2, 3, 5]))):
                evs.append(['next', c]); live[c] -= 1
            continue
        q = rng.random()
        if rng.random() < 0.35:
            # the logical update view on a predicate of this size: a goal is started and suspended, the predicate is changed
            # at once (nothing else in between), the goal is resumed until it ends (a retract: a few answers, then closed)
            kind = 'q' if rng.random() < 0.75 else 'r'
            c = start(kind, rng.random() < 0.6)
            evs.extend(['next', c] for _ in range(rng.choice([1, 1, 2])))
            same = pfirst[c] if pfirst[c][0] in ('a', 'i') else None
            w = rng.choice(['assertz', 'assertz', 'assertz', 'assertz', 'asserta', 'retract', 'retractall'])
            if w in ('assertz', 'asserta'):
                for _ in range(rng.choice([1, 1, 2, 3])):
                    evs.append(['assert', w == 'asserta', fact(same if rng.random() < 0.85 else None),
                                rng.choice(['api', 'api', 'builtin', 'compiled', 'boundvar'])])
            elif w == 'retract':
                c2 = start('r')
                evs.extend([['next', c2], [rng.choice(['close', 'drop']), c2]])
            else:
                evs.append(['retractall', ['f', name, pattern()], rng.choice(['builtin', 'boundvar', 'compiled'])])
            if kind == 'q':
                evs.extend(['next', c] for _ in range(min(serial[0] + 2, 70)))
            else:
                evs.extend(['next', c] for _ in range(rng.choice([1, 2, 5])))
                evs.append([rng.choice(['close', 'drop']), c])
            continue
        if q < 0.24:
            c = start('q')
            live[c] = rng.choice([1, 2, 3, 6, 12])
            evs.append(['next', c]); live[c] -= 1
        elif q < 0.36:
            c = start('r')
            live[c] = rng.choice([1, 2, 3, 6])
            evs.append(['next', c]); live[c] -= 1
        elif q < 0.62:
            # a new fact, mostly with the first argument a suspended goal was called with
            bound = [pfirst[c] for c in live if pfirst[c][0] in ('a', 'i')]
            fst = rng.choice(bound) if bound and rng.random() < 0.7 else None
            for _ in range(rng.choice([1, 1, 1, 2, 3])):
                evs.append(['assert', rng.random() < 0.2, fact(fst), rng.choice(['api', 'api', 'builtin', 'compiled', 'boundvar'])])
        elif q < 0.70:
            c = start('r')
            evs.append(['next', c])
            if rng.random() < 0.7:
                evs.append([rng.choice(['close', 'drop']), c])
            else:
                live[c] = rng.choice([1, 2])
        elif q < 0.77:
            evs.append(['retractall', ['f', name, pattern()], rng.choice(['builtin', 'builtin', 'boundvar', 'compiled'])])
        elif q < 0.94:
            evs.append(['qall', name, pattern()])
        else:
            evs.append(['clear', rng.choice(CLEAR_VIAS)])
    # the cursors that are still suspended are resumed; one of them until it ends
    rest = sorted(live)
    rng.shuffle(rest)
    for j, c in enumerate(rest):
        n = min(serial[0] + 2, 45) if j == 0 else rng.choice([0, 1, 2, 5])
        evs.extend(['next', c] for _ in range(n))
        if rng.random() < 0.3:
            evs.append(['assert', False, fact(pfirst[c] if pfirst[c][0] in ('a', 'i') else None), 'api'])
    case = {'events': evs, 'keys': case_keys(evs), 'shape': 'big', 'bulk': bulk, 'bulk_rb': True, 'size': size, 'profile': prof}
    return case

def spread(cases, extra):
    """extra inserted into cases at regular distances (the expensive ones do not end up in one file of the model run)"""
    if not extra:
        return cases
    out = []
    step = max(1, len(cases) // len(extra))
    it = iter(extra)
    for i, c in enumerate(cases):
        out.append(c)
        if i % step == step - 1:
            x = next(it, None)
            if x is not None:
                out.append(x)
    out.extend(it)
    return out

# ------------------------------------------------------------------ clear() while queries and retracts are suspended

def gen_clear_history(rng):
    """1-2 predicates with 2-6 facts; 1-4 cursors (queries and retracts through every route) started and advanced so that
    candidates are LEFT in their snapshots; then clear() - through the API, or called by a Python predicate that runs as a goal
    of its own or inside a compiled clause while the cursors are suspended; then (sometimes) facts equal to the old ones are
    asserted again; then every cursor is resumed until it ends.  The engine as it is: a query goes on in the list it read, a
    retract finds none of its candidates in the (new) store and ends, nothing it was holding comes back."""
    nk = rng.choice([1, 1, 2])
    keys = []
    while len(keys) < nk:
        k = (rng.choice(NAMES), rng.choice([0, 1, 1, 1, 2]))
        if k not in keys:
            keys.append(k)
    evs = []
    facts = {k: [] for k in keys}
    for k in keys:
        for _ in range(rng.choice([2, 3, 3, 4, 6])):
            t = gen_goal(rng, k[0], k[1], 0.05)
            facts[k].append(t)
            evs.append(['assert', False, t, rng.choice(['api', 'api', 'builtin', 'compiled'])])
    nextc = [0]
    for _round in range(rng.choice([1, 1, 2])):
        cs = []
        for _ in range(rng.choice([1, 2, 2, 3, 4])):
            k = keys[0] if rng.random() < 0.7 else rng.choice(keys)
            _, allvars, pat = _key_terms(rng, k)
            c = nextc[0]; nextc[0] += 1
            p = pat()
            if rng.random() < 0.6:
                evs.append(['start', c, 'r', p, rng.choice(['builtin', 'builtin', 'boundvar', 'compiled'])])
            else:
                evs.append(['start', c, 'q', k[0], p[2] if p[0] == 'f' else [], rng.choice(['api', 'compiled', 'call'])])
            # 0 = created but not started (reads the store at its first next, after the clear)
            evs.extend(['next', c] for _ in range(rng.choice([0, 1, 1, 1, 2])))
            cs.append(c)
            if rng.random() < 0.2:
                evs.append(['assert', rng.random() < 0.3, gen_goal(rng, k[0], k[1], 0.05), 'api'])
        evs.append(['clear', rng.choice(CLEAR_VIAS)])
        if rng.random() < 0.6:
            # the same facts again: new Answer objects, equal to the ones the suspended goals still hold
            for k in keys:
                for t in facts[k]:
                    if rng.random() < 0.6:
                        evs.append(['assert', rng.random() < 0.2, t, rng.choice(['api', 'builtin', 'compiled'])])
        order = list(cs)
        rng.shuffle(order)
        for c in order:
            evs.extend(['next', c] for _ in range(rng.choice([1, 3, 8])))
            if rng.random() < 0.3:
                k = rng.choice(keys)
                evs.append(['assert', False, gen_goal(rng, k[0], k[1], 0.05), 'api'])
        for c in order:
            if rng.random() < 0.5:
                evs.append(['next', c])
            if rng.random() < 0.4:
                evs.append([rng.choice(['close', 'drop']), c])
    return {'events': evs, 'keys': case_keys(evs), 'shape': 'clear'}

# ------------------------------------------------------------------ operations over the variables of open cursors

def _pattern_vars(e):
    return sorted(terms.term_vars(['f', e[3], e[4]] if e[2] == 'q' else e[3]))

def gen_open_term(rng, pvars, k):
    """name(args) for the key k; every variable is one of pvars (variables of the cursor's pattern)"""
    def arg():
        q = rng.random()
        if pvars and q < 0.55:
            return ['v', rng.choice(pvars)]
        if pvars and q < 0.72:
            return ['f', rng.choice(['f', 'who']), [['v', rng.choice(pvars)]]]
        if pvars and q < 0.8:
            return terms.mklist([['v', rng.choice(pvars)]], ['v', rng.choice(pvars)] if rng.random() < 0.3 else None)
        return gen_arg(rng, 0, 0.0)
    return ['f', k[0], [arg() for _ in range(k[1])]] if k[1] else ['a', k[0]]

def gen_open_history(rng):
    """Operations issued WHILE QUERIES ARE OPEN, with arguments that mention the variables of those queries: the caller of
    the Python API loops over the answers of name(Y) and, inside the loop, calls assert_fact / asserta / assertz /
    retractall / another query with terms built from Y - Variable objects that are bound only until the loop advances.
    The cursors are then advanced, exhausted, closed or dropped and everything is read back (after every event)."""
    src = (rng.choice(NAMES), rng.choice([1, 1, 2]))
    dsts = [(n, a) for n in NAMES for a in (1, 1, 2, 0) if (n, a) != src]
    dst = rng.choice(dsts) if rng.random() < 0.8 else src
    evs = []
    nsrc = rng.choice([2, 3, 3, 4])
    for _ in range(nsrc):
        evs.append(['assert', False, gen_goal(rng, src[0], src[1], 0.08), rng.choice(['api', 'builtin'])])
    for _ in range(rng.choice([0, 0, 1, 2])):
        evs.append(['assert', rng.random() < 0.3, gen_goal(rng, dst[0], dst[1], 0.08), rng.choice(['api', 'builtin'])])
    live = {}
    pv = {}
    for c in range(rng.choice([1, 1, 2])):
        p = gen_goal(rng, src[0], src[1], 0.9)
        if not terms.term_vars(p):
            p = ['f', src[0], [['v', i] for i in range(src[1])]]
        if rng.random() < 0.75:
            e = ['start', c, 'q', src[0], p[2], rng.choice(['api', 'api', 'compiled', 'call'])]
        else:
            e = ['start', c, 'r', p, rng.choice(['builtin', 'builtin', 'boundvar', 'compiled'])]
        evs.append(e)
        pv[c] = _pattern_vars(e)
        live[c] = rng.choice([nsrc + 1, nsrc + 1, rng.randrange(1, nsrc + 1)])
    def open_op(c):
        q = rng.random()
        k = dst if rng.random() < 0.85 else src
        if q < 0.7:
            via = rng.choice(['api', 'api', 'api', 'builtin', 'compiled', 'boundvar'])
            evs.append(['open', c, ['assert', rng.random() < 0.3, gen_open_term(rng, pv[c], k), via]])
        elif q < 0.82:
            evs.append(['open', c, ['retractall', gen_open_term(rng, pv[c], k), rng.choice(['builtin', 'boundvar', 'compiled'])]])
        else:
            t = gen_open_term(rng, pv[c], k)
            evs.append(['open', c, ['qall', k[0], t[2] if t[0] == 'f' else []]])
    if rng.random() < 0.15:
        open_op(rng.choice(sorted(live)))          # before the query has started: its variables are unbound
    while live:
        c = rng.choice(sorted(live))
        if live[c] <= 0:
            evs.append([rng.choice(['close', 'close', 'drop']), c])
            del live[c]
            if rng.random() < 0.3:
                open_op(c)                          # after the query is gone: unbound again
            continue
        evs.append(['next', c]); live[c] -= 1
        for _ in range(rng.choice([0, 1, 1, 2])):
            open_op(c)
        if len(live) > 1 and rng.random() < 0.3:
            open_op(rng.choice(sorted(live)))       # over the variables of the other open query
        if rng.random() < 0.1:
            evs.append(['assert', rng.random() < 0.3, gen_goal(rng, src[0], src[1], 0.08), rng.choice(['api', 'builtin'])])
    case = {'events': evs, 'keys': case_keys(evs), 'shape': 'open'}
    if rng.random() < 0.25:
        case['objects'] = {'fact': rng.choice(['held', 'table']), 'pat': rng.choice(['held', 'table']),
                           'nil_fact': rng.choice(NIL_SPELLINGS), 'nil_pat': rng.choice(NIL_SPELLINGS)}
    return case

# ====================================================================== compiled programs (Engine/DbProg.v)
# A case of kind 'dbprog':
#   clauses: [{'name', 'nv', 'head': [terms over 0..nv-1], 'body': [goals]}]   (clauses of one predicate are contiguous)
#   goal:    ['u', a, b]  A = B  |  ['c', name, args]  name(args)  |  ['as', front, t]  |  ['re', t]  |  ['ra', t]
#            control (round 5): ['cut'] | ['fail'] | ['or', A, B]  ( A ; B ) | ['if', C, T, E]  ( C -> T ; E )
#            | ['ifthen', C, T]  ( C -> T ) | ['not', C]  \+ ( C )      with A, B, C, T, E lists of goals ([] = true)
#            a goal ['as', front, t, 'py'] / ['re', t, 'py'] / ['ra', t, 'py'] (t = name(args) written out) is issued through a
#            PYTHON PREDICATE registered with register_function: the source goal is py_assertz_<name>(args) etc., and the
#            Python function calls yp.assert_fact(yp.atom(name), [the argument objects it received]) / yp.retract /
#            yp.retractall - the clause's own Variable objects, bound at that moment.  The model is the same goal.
#   queries: [[name, args over 0..nq-1, nq]]   run one after the other to exhaustion on the same engine
#   reads:   [[name, arity]]                   stored facts printed at the end (match_dynamic with new variables)
# The program text is compiled by the real compiler; the model runs the same clauses (Engine/RunDbProg.v).

_QNIL = [False]        # render the atom [] as '[]' (the compiler then emits atom('[]') instead of ATOM_NIL)
_NILQ = [None]

def pl_term(t):
    k = t[0]
    if k == 'a':
        if t[1] == '[]' and _QNIL[0]:
            return "'[]'"
        return t[1]
    if k == 'i':
        return str(t[1])
    if k == 'v':
        return 'V%d' % t[1]
    if k == 'f':
        if t[1] == '.' and len(t[2]) == 2:
            return '[%s|%s]' % (pl_term(t[2][0]), pl_term(t[2][1]))
        if not t[2]:
            raise ValueError('zero-argument compound is not expressible in source text')
        return '%s(%s)' % (t[1], ','.join(pl_term(a) for a in t[2]))
    raise ValueError(t)

def pl_goal(g, nilq=None):
    # nilq: 'pat' / 'fact' = goals / asserted terms spell the empty list '[]' instead of []
    _QNIL[0] = (nilq == 'fact') if g[0] == 'as' else (nilq == 'pat')
    _NILQ[0] = nilq
    try:
        return _pl_goal(g)
    finally:
        _QNIL[0] = False
        _NILQ[0] = None

PY_OPS = {'as': None, 're': 'retract', 'ra': 'retractall'}

def py_goal(g):
    """(operation, name, args) if the goal is issued through a registered Python predicate, else None"""
    if g[0] not in PY_OPS or g[-1] != 'py':
        return None
    t = g[2] if g[0] == 'as' else g[1]
    if t[0] == 'a' and t[1] != '[]':
        name, args = t[1], []
    elif t[0] == 'f' and t[2] and t[1] != '.':
        name, args = t[1], t[2]
    else:
        return None
    op = ('asserta' if g[1] else 'assertz') if g[0] == 'as' else PY_OPS[g[0]]
    return op, name, args

def py_predicates(case):
    out = set()
    for c in case['clauses']:
        for g in flat_goals(c['body']):
            pg = py_goal(g)
            if pg:
                out.add((pg[0], pg[1]))
    return sorted(out)

def register_py_predicates(yp, case):
    """Python predicates that update the database through the API with the argument objects they are called with"""
    def make(op, name):
        def pred(*args):
            if op == 'assertz':
                yp.assert_fact(yp.atom(name), list(args))
                yield False
            elif op == 'asserta':
                yp.assert_fact(yp.atom(name), list(args), False)
                yield False
            elif op == 'retract':
                for _ in yp.retract(yp.functor(name, list(args)) if args else yp.atom(name)):
                    yield False
            else:
                for _ in yp.retractall(yp.functor(name, list(args)) if args else yp.atom(name)):
                    yield False
        return pred
    for op, name in py_predicates(case):
        yp.register_function('py_%s_%s' % (op, name), make(op, name), arity=-1)

def decorate_py(rng, case, p=0.6):
    """a copy of the dbprog case in which a share p of the database goals with a written-out term go through Python predicates"""
    import json
    case = json.loads(json.dumps(case))
    def dec(gs):
        for g in gs:
            if g[0] in ('or', 'if', 'ifthen', 'not'):
                for sub in g[1:]:
                    dec(sub)
            elif g[0] in PY_OPS and rng.random() < p:
                g.append('py')
                if py_goal(g) is None:
                    g.pop()
    for c in case['clauses']:
        dec(c['body'])
    case['py'] = True
    return case

def _pl_goal(g):
    k = g[0]
    pg = py_goal(g)
    if pg:
        op, name, args = pg
        return pl_term(['f', 'py_%s_%s' % (op, name), args] if args else ['a', 'py_%s_%s' % (op, name)])
    if k == 'u':
        return '%s = %s' % (pl_term(g[1]), pl_term(g[2]))
    if k == 'c':
        return pl_term(['f', g[1], g[2]] if g[2] else ['a', g[1]])
    if k == 'as':
        return '%s(%s)' % ('asserta' if g[1] else 'assertz', pl_term(g[2]))
    if k == 're':
        return 'retract(%s)' % pl_term(g[1])
    if k == 'ra':
        return 'retractall(%s)' % pl_term(g[1])
    if k == 'cut':
        return '!'
    if k == 'fail':
        return 'fail'
    if k == 'or':
        return '( %s ; %s )' % (_pl_conj(g[1]), _pl_conj(g[2]))
    if k == 'if':
        return '( %s -> %s ; %s )' % (_pl_conj(g[1]), _pl_conj(g[2]), _pl_conj(g[3]))
    if k == 'ifthen':
        return '( %s -> %s )' % (_pl_conj(g[1]), _pl_conj(g[2]))
    if k == 'not':
        return '\\+ ( %s )' % _pl_conj(g[1])
    raise ValueError(g)

def _pl_conj(gs):
    q = _QNIL[0]
    out = []
    for g in gs:
        # the spelling of [] depends on the kind of goal (see pl_goal); inside a branch as outside
        _QNIL[0] = (_NILQ[0] == 'fact') if g[0] == 'as' else (_NILQ[0] == 'pat')
        out.append(_pl_goal(g))
    _QNIL[0] = q
    return ', '.join(out) if out else 'true'

def flat_goals(gs):
    """the goals of a body in textual order, those inside the branches of control constructs included"""
    for g in gs:
        if g[0] in ('or', 'if', 'ifthen', 'not'):
            for sub in g[1:]:
                yield from flat_goals(sub)
        else:
            yield g

def nest_depth(gs):
    """number of statically nested blocks the compiler emits for the conjunction gs (it duplicates the continuation into
    both branches of a disjunction / if-then-else); CPython refuses more than 20"""
    if not gs:
        return 0
    g, r = gs[0], gs[1:]
    k = g[0]
    if k == 'fail':
        return 0
    if k == 'cut':
        return nest_depth(r)
    if k == 'or':
        return max(nest_depth(g[1] + r), nest_depth(g[2] + r))
    if k == 'if':
        return 2 + max(nest_depth(g[1] + g[2] + r), nest_depth(g[3] + r))
    if k == 'ifthen':
        return 2 + nest_depth(g[1] + g[2] + r)
    if k == 'not':
        return 2 + max(nest_depth(g[1]), nest_depth(r))
    return 1 + nest_depth(r)

def code_size(gs):
    """number of goal occurrences in the emitted code (continuations are duplicated)"""
    if not gs:
        return 1
    g, r = gs[0], gs[1:]
    k = g[0]
    if k == 'fail':
        return 1
    if k == 'or':
        return code_size(g[1] + r) + code_size(g[2] + r)
    if k == 'if':
        return code_size(g[1] + g[2] + r) + code_size(g[3] + r)
    if k == 'ifthen':
        return code_size(g[1] + g[2] + r)
    if k == 'not':
        return code_size(g[1]) + code_size(r)
    return 1 + code_size(r)

def prog_source(case):
    lines = []
    for c in case['clauses']:
        head = pl_term(['f', c['name'], c['head']] if c['head'] else ['a', c['name']])
        if c['body']:
            lines.append('%s :- %s.' % (head, ', '.join(pl_goal(g, case.get('nilq')) for g in c['body'])))
        else:
            lines.append('%s.' % head)
    return '\n'.join(lines) + '\n'

def g_goal(g):
    k = g[0]
    if k == 'u':
        return '(GUnify %s %s)' % (g_term(g[1]), g_term(g[2]))
    if k == 'c':
        return '(GCall %s %s)' % (g_str(g[1]), g_list([g_term(a) for a in g[2]]))
    if k == 'as':
        return '(GAssert %s %s)' % (g_bool(g[1]), g_term(g[2]))
    if k == 're':
        return '(GRetract %s)' % g_term(g[1])
    if k == 'ra':
        return '(GRetractAll %s)' % g_term(g[1])
    if k == 'cut':
        return 'GCut'
    if k == 'fail':
        return 'GFail'
    if k == 'or':
        # the parser's tree: a disjunction whose left side is an if-then IS an if-then-else (parentheses are not kept)
        if len(g[1]) == 1 and g[1][0][0] == 'ifthen':
            return '(GIf %s %s %s)' % (g_goals(g[1][0][1]), g_goals(g[1][0][2]), g_goals(g[2]))
        return '(GOr %s %s)' % (g_goals(g[1]), g_goals(g[2]))
    if k == 'if':
        return '(GIf %s %s %s)' % (g_goals(g[1]), g_goals(g[2]), g_goals(g[3]))
    if k == 'ifthen':
        return '(GIfThen %s %s)' % (g_goals(g[1]), g_goals(g[2]))
    if k == 'not':
        return '(GNot %s)' % g_goals(g[1])
    raise ValueError(g)

def g_goals(gs):
    return g_list([g_goal(g) for g in gs])

def prog_model_expr(case):
    cls = ['(mkcl %s %s %s %s)' % (g_str(c['name']), g_nat(c['nv']), g_list([g_term(a) for a in c['head']]),
                                   g_list([g_goal(g) for g in c['body']])) for c in case['clauses']]
    qs = ['(%s, %s, %s)' % (g_str(n), g_list([g_term(a) for a in args]), g_nat(nq)) for n, args, nq in case['queries']]
    reads = ['(%s, %s)' % (g_str(n), g_nat(ar)) for n, ar in case['reads']]
    # programs with meta-calls (call/N, once/1, findall/3) run on the extended machine DbProgMeta.msolve, in which a goal
    # name(args) is YP.query literally (facts, then the program's clauses or the registered builtin of that name)
    run = 'run_prog_meta' if case.get('meta') else 'run_prog'
    return '(%s 200 80 %d %s %s %s)' % (run, PROG_MODEL_WORK, g_list(cls), g_list(qs), g_list(reads))

PROG_MODEL_WORK = 3000      # search activations the model may perform in one case (more: 'stuck', no comparison)
PROG_ASSERT_CAP = 3500      # > PROG_MODEL_WORK (an assert is an activation): a run the model completes stays below
PROG_ANSWER_CAP = 4000      # > PROG_MODEL_WORK: a run the model completes has fewer answers

class AssertBudget(Exception):
    pass

def _build_api(yp, T, t, nil):
    if t == ['a', '[]']:
        return yp.ATOM_NIL if nil == 'ATOM_NIL' else (yp.makelist([]) if nil == 'makelist' else yp.atom('[]'))
    if t[0] == 'f':
        return yp.functor(t[1], [_build_api(yp, T, a, nil) for a in t[2]])
    return T.build(t)

def prog_run_impl(case):
    from yldprolog import engine as E, compiler
    yp = E.YP()
    if case.get('clear_first'):
        yp.clear()            # a new atom table; yp.ATOM_NIL (= the [] of compiled code) is the object made before
    src = prog_source(case)
    try:
        code = compiler.compile_prolog_from_string(src)
    except Exception as ex:
        if 'program too large for Python' in str(ex):
            return {'end': 'too-large', 'queries': []}       # D13: CPython's limit of 20 nested blocks; not a database matter
        raise
    yp.load_script_from_string(code)
    register_py_predicates(yp, case)
    out_q = []
    count = [0]
    real_assert = yp.assert_fact
    def counting_assert(*a, **kw):
        count[0] += 1
        if count[0] > PROG_ASSERT_CAP:
            raise AssertBudget()
        return real_assert(*a, **kw)
    import time
    t_end = time.time() + 5.0
    real_md = yp.match_dynamic
    def timed_match_dynamic(*a, **kw):
        if time.time() > t_end:
            raise AssertBudget()
        return real_md(*a, **kw)
    # budgets only (instance attributes, the engine's code is untouched): exponential programs are cut off
    yp.assert_fact = counting_assert
    yp.match_dynamic = timed_match_dynamic
    try:
        for name, args, nq in case['queries']:
            T = terms.ImplTerms(yp, nq)
            objs = [_build_api(yp, T, a, case.get('api_nil', 'atom')) for a in args]
            answers = []
            g = yp.query(name, objs)
            for _ in g:
                answers.append(canon_args([terms.term_obs(T.read(o)) for o in objs]))
                if len(answers) > PROG_ANSWER_CAP or (len(answers) % 64 == 0 and time.time() > t_end):
                    g.close()
                    return {'end': 'too-many-answers', 'queries': out_q}
            out_q.append(answers)
        reads = []
        for n, ar in case['reads']:
            T = terms.ImplTerms(yp, ar)
            vs = T.vars[:ar]
            rows = []
            for _ in real_md(yp.atom(n), vs):
                rows.append(canon_args([terms.term_obs(T.read(v)) for v in vs]))
                if len(rows) > 20000:
                    return {'end': 'read-back-does-not-end', 'queries': out_q}
            reads.append(rows)
        # every stored fact, read back and written down again through the API (atoms from the current table, []
        # in the spelling the case names), is a pattern that matches at least that fact
        selfmatch = []
        for (n, ar), rows in zip(case['reads'], reads):
            for row in rows[:12]:
                T = terms.ImplTerms(yp)
                objs = [_build_api(yp, T, terms.obs_term(o), case.get('api_nil', 'atom')) for o in row]
                k = 0
                for _ in real_md(yp.atom(n), objs):
                    k += 1
                    if k > 20000:
                        break
                if k == 0:
                    selfmatch.append([n, row])
    except AssertBudget:
        return {'end': 'budget', 'queries': out_q}
    except RecursionError:
        return {'end': 'deep', 'queries': out_q}
    except Exception as ex:
        if type(ex).__name__ == 'CaseTimeout':
            raise
        return {'end': 'raised', 'what': type(ex).__name__ + ': ' + str(ex)[:200], 'queries': out_q}
    return {'end': 'done', 'queries': out_q, 'reads': reads, 'asserts': count[0], 'selfmatch': selfmatch}

def prog_compare(case, io, mo):
    """io: dict of prog_run_impl; mo: [[['answers', [...]] | ['stuck'] ...], reads | ['stuck']]"""
    mq, mr, mn = mo
    stuck = (mr == ['stuck']) or any(q == ['stuck'] for q in mq)
    if not isinstance(io, dict):
        if stuck and io and io[0] == 'harness-timeout':
            return None
        return 'implementation side: %r' % (io,)
    if stuck and io['end'] in ('deep', 'budget', 'too-many-answers'):
        return None
    if io['end'] == 'too-large' and max(nest_depth(c['body']) for c in case['clauses']) >= 14:
        return None
    for i, q in enumerate(mq):
        if q == ['stuck']:
            return None            # cyclic term / fuel: outside the specified domain from here on
        want = [canon_args(a) for a in q[1]]
        if i >= len(io['queries']):
            return 'query %d %r: implementation ended with %s (%s); model answers %r' % (i, case['queries'][i][0], io['end'], io.get('what', ''), want)
        if io['queries'][i] != want:
            return 'query %d %s: implementation answers %r, model %r' % (i, case['queries'][i][0], io['queries'][i], want)
    if io['end'] == 'too-many-answers' and len(io['queries']) < len(mq) and len(mq[len(io['queries'])][1]) > 1000:
        return None             # cut off by the harness's own time limit on a long (but finite) enumeration
    if io['end'] == 'budget' and isinstance(mn, int) and mn > 150:
        return None             # cut off by the harness's own time limit on a long (but finite) run
    if io['end'] != 'done':
        return 'implementation ended with %s (%s), the model ran all queries (%r Answer objects created)' % (io['end'], io.get('what', ''), mn)
    if io['asserts'] != mn:
        return 'the implementation stored %d facts during the run, the model %r' % (io['asserts'], mn)
    for (n, ar), rows, mrows in zip(case['reads'], io['reads'], mr):
        want = [canon_args(a) for a in mrows]
        if rows != want:
            return 'stored facts of %s/%d after the run: implementation %r, model %r' % (n, ar, rows, want)
    return None

def prog_oracle(case, io):
    if not isinstance(io, dict):
        return None
    if io['end'] == 'raised':
        return 'a database operation issued from compiled code raised: %s' % io.get('what')
    if io['end'] == 'read-back-does-not-end':
        return io['end']
    if io.get('selfmatch'):
        n, row = io['selfmatch'][0]
        return 'the stored fact %s%r, written down again as a query through the API, matches no fact' % (n, [terms.show_term(terms.obs_term(o)) for o in row])
    return None

def prog_describe(case):
    return {'program': prog_source(case), 'queries': [[n, [terms.show_term(a) for a in args]] for n, args, _ in case['queries']],
            'reads': case['reads'], 'clear_first': case.get('clear_first', False), 'api_nil': case.get('api_nil', 'atom')}

def _shrink_goals(gs):
    """smaller variants of a list of goals: one goal dropped; a control construct replaced by one of its branches;
    a branch made smaller"""
    for gi, g in enumerate(gs):
        yield gs[:gi] + gs[gi + 1:]
        if g[0] in ('or', 'if', 'ifthen', 'not'):
            for sub in g[1:]:
                yield gs[:gi] + sub + gs[gi + 1:]
            for bi in range(1, len(g)):
                for small in _shrink_goals(g[bi]):
                    yield gs[:gi] + [g[:bi] + [small] + g[bi + 1:]] + gs[gi + 1:]

def prog_shrink(case):
    cls = case['clauses']
    for ci, c in enumerate(cls):
        for body in _shrink_goals(c['body']):
            c2 = dict(c); c2['body'] = body
            if not c2['body'] and c['name'] == 'init':
                continue
            n = dict(case); n['clauses'] = cls[:ci] + [c2] + cls[ci + 1:]
            yield n
    if case.get('clear_first'):
        n = dict(case); n.pop('clear_first'); n.pop('nilq', None); n.pop('api_nil', None)
        yield n
    if len(case['queries']) > 1:
        for qi in range(len(case['queries'])):
            n = dict(case); n['queries'] = case['queries'][:qi] + case['queries'][qi + 1:]
            yield n

def prog_nontrivial(case, io):
    """a goal that enumerates a predicate (a call or a retract with a variable in its pattern) is followed, in the
    same body, by an update of that predicate, and the query that runs it had facts to enumerate"""
    if not isinstance(io, dict) or io['end'] != 'done':
        return False
    def key(t):
        return callable_key(t)
    for c in case['clauses']:
        gens = set()
        for g in flat_goals(c['body']):
            if g[0] == 'c' and any(terms.term_vars(a) for a in g[2]):
                gens.add((g[1], len(g[2])))
            elif g[0] == 're':
                if key(g[1]) in gens:
                    return True
                if terms.term_vars(g[1]) and key(g[1]):
                    gens.add(key(g[1]))
            elif g[0] in ('as', 'ra'):
                t = g[2] if g[0] == 'as' else g[1]
                if key(t) in gens:
                    return True
    return False

PROG_DYN = [('p', 1), ('q', 1), ('c', 1), ('flag', 0), ('r', 2)]

def gen_dbprog(rng, loopy=0.6, ctrl=0.5):
    """ctrl: share of the programs whose bodies contain !, ;, ->, \\+ (also in the helper predicate)"""
    control = rng.random() < ctrl
    nv = rng.choice([2, 3, 3, 4])
    K = ('p', 1) if rng.random() < 0.65 else rng.choice(PROG_DYN)
    def key():
        return K if rng.random() < 0.75 else rng.choice(PROG_DYN)
    consts = [['a', 'a'], ['a', 'b'], ['i', 1], ['i', 2], ['f', 'f', [['a', 'a']]], ['a', '[]']]
    def term(pvar, depth=1):
        q = rng.random()
        if q < pvar:
            return ['v', rng.randrange(nv)]
        if q < pvar + 0.12 and depth > 0:
            f, n = rng.choice([('f', 1), ('g', 2), ('s', 1), ('f', 1)])
            return ['f', f, [term(pvar, depth - 1) for _ in range(n)]]
        return rng.choice(consts)
    def goal_term(k, pvar):
        return ['f', k[0], [term(pvar) for _ in range(k[1])]] if k[1] else ['a', k[0]]
    clauses = []
    used = set()
    # initial facts
    init = []
    for _ in range(rng.choice([0, 1, 2, 3, 3, 4, 5])):
        k = key(); used.add(k)
        init.append(['as', rng.random() < 0.2, goal_term(k, 0.1)])
    clauses.append({'name': 'init', 'nv': nv, 'head': [], 'body': init or [['u', ['a', 'a'], ['a', 'a']]]})
    helpers = []
    if rng.random() < 0.35:
        k = key(); used.add(k)
        hb = rng.choice([
            [['as', False, goal_term(k, 0.7)]],
            [['re', goal_term(k, 0.8)]],
            [['c', k[0], [term(0.8) for _ in range(k[1])]]],
            [['c', k[0], [term(0.8) for _ in range(k[1])]], ['as', rng.random() < 0.5, goal_term(k, 0.6)]],
        ])
        ncl = rng.choice([1, 1, 2])
        if control and rng.random() < 0.6:
            # the helper commits: its cut must end the helper's clauses (and its suspended goals) and nothing of the caller
            hb = hb + [['cut']] + ([['as', rng.random() < 0.5, goal_term(k, 0.6)]] if rng.random() < 0.4 else [])
            ncl = 2
        for i in range(ncl):
            clauses.append({'name': 'h', 'nv': nv, 'head': [term(0.7)], 'body': hb if i == 0 else []})
        helpers.append(('h', 1))
    h = rng.choice([0, 1, 1, 2])
    ngen = 0
    n = rng.choice([2, 3, 4, 5, 6, 7])
    nctl = [0]
    def steps(body, n, depth):
      nonlocal ngen
      while len(body) < n:
        q = rng.random()
        k = key(); used.add(k)
        if control and nctl[0] < 3 and rng.random() < (0.32 if depth == 0 else 0.12):
            nctl[0] += 1
            def short(maxn=2, cutp=0.25):
                b = steps([], rng.choice([1, 1, 2][:maxn + 1]), depth + 1)
                if rng.random() < cutp:
                    b.insert(rng.randrange(len(b) + 1), ['cut'])
                return b
            w = rng.random()
            if w < 0.22:
                body.append(['cut'])
            elif w < 0.42:
                body.append(['or', short(), short()])
            elif w < 0.67:
                body.append(['if', short(cutp=0.15), short(), short() if rng.random() < 0.8 else []])
            elif w < 0.77:
                body.append(['ifthen', short(cutp=0.15), short()])
            elif w < 0.95:
                body.append(['not', short(cutp=0.15)])
            else:
                body.append(['fail'])
        elif q < 0.24:
            pv = rng.choice([0.5, 0.9, 1.0])
            if pv > 0.4 and ngen >= 3:
                pv = 0.0
            else:
                ngen += 1
            body.append(['c', k[0], [term(pv) for _ in range(k[1])]])
        elif q < 0.44:
            if ngen >= 3:
                body.append(['re', goal_term(k, 0.0)])
            else:
                ngen += 1
                body.append(['re', goal_term(k, rng.choice([0.4, 0.8, 1.0]))])
        elif q < 0.70:
            body.append(['as', rng.random() < 0.35, goal_term(k, rng.choice([0.2, 0.6, 0.9]))])
        elif q < 0.77:
            body.append(['ra', goal_term(k, rng.choice([0.3, 0.8]))])
        elif q < 0.87:
            x = rng.randrange(nv); t = term(0.4)
            if t[0] == 'f' and x in terms.term_vars(t):
                t = rng.choice(consts)
            body.append(['u', ['v', x], t])
        elif q < 0.92 and helpers and ngen < 3:
            ngen += 1
            body.append(['c', 'h', [term(0.8)]])
        elif q < 0.97:
            # a goal that arrives in a bound variable
            gv = ['v', nv - 1]
            gt = goal_term(k, 0.6)
            if (nv - 1) in terms.term_vars(gt):
                gt = goal_term(k, 0.0)
            body.append(['u', gv, gt])
            if ngen < 3:
                ngen += 1
                body.append(rng.choice([['as', False, gv], ['re', gv], ['ra', gv]]))
            else:
                body.append(rng.choice([['as', False, gv], ['ra', gv]]))
        else:
            body.append(rng.choice([['as', False, ['v', rng.randrange(nv)]], ['re', ['i', 3]], ['c', 'nofacts', [term(0.5)]]]))
      return body
    body = steps([], n, 0)
    # CPython's limit of 20 statically nested blocks (D13) and the duplication of continuations: keep the emitted code small
    while control and (nest_depth(body) + h > 15 or code_size(body) > 120):
        body = body[:-1]
    head = [['v', i] for i in range(h)]
    if rng.random() < loopy:
        body.append(['u', ['a', 'a'], ['a', 'b']])       # fail: a failure-driven loop
        clauses.append({'name': 'm', 'nv': nv, 'head': head, 'body': body})
        clauses.append({'name': 'm', 'nv': nv, 'head': head, 'body': []})
    else:
        clauses.append({'name': 'm', 'nv': nv, 'head': head, 'body': body})
    queries = [['init', [], 0], ['m', [['v', i] for i in range(h)], h]]
    if rng.random() < 0.3:
        queries.append(['m', [['v', i] if rng.random() < 0.6 else rng.choice(consts[:4] + [['a', '[]']]) for i in range(h)], h])
    reads = sorted(used | {K})
    case = {'kind': 'dbprog', 'clauses': clauses, 'queries': queries, 'reads': [list(k) for k in reads]}
    if rng.random() < 0.4:
        case['clear_first'] = True
        case['nilq'] = rng.choice([None, 'pat', 'fact'])
        case['api_nil'] = rng.choice(['atom', 'ATOM_NIL', 'makelist'])
    return case

def goal_as_term(g):
    """the term that, called, is the goal g (database goals and calls only)"""
    k = g[0]
    if k == 'as':
        return ['f', 'asserta' if g[1] else 'assertz', [g[2]]]
    if k == 're':
        return ['f', 'retract', [g[1]]]
    if k == 'ra':
        return ['f', 'retractall', [g[1]]]
    if k == 'c':
        return ['f', g[1], g[2]] if g[2] else ['a', g[1]]
    return None

def meta_wrap(rng, g, fresh, depth=0):
    """goals that reach the goal g through call/N, once/1 or findall/3 (a list: a goal held in a variable needs G = .. first);
    fresh() gives a new clause variable"""
    t = goal_as_term(g)
    if t is None:
        return [g]
    w = rng.random()
    if w < 0.18:
        out = [['c', 'call', [t]]]
    elif w < 0.36:
        # call/N with the last arguments (or all of them) passed as extra arguments
        if t[0] == 'f':
            j = rng.randrange(len(t[2]))
            if rng.random() < 0.5:
                j = 0
            hd = ['f', t[1], t[2][:j]] if j else ['a', t[1]]
            out = [['c', 'call', [hd] + t[2][j:]]]
        else:
            out = [['c', 'call', [t]]]
    elif w < 0.52:
        v = fresh()
        out = [['u', v, t], ['c', rng.choice(['call', 'call', 'once']), [v]]]
    elif w < 0.68:
        out = [['c', 'once', [t]]]
    else:
        bag = fresh()
        vs = sorted(terms.term_vars(t))
        if g[0] in ('c', 're') and vs and rng.random() < 0.8:
            inner = g[2] if g[0] == 'c' else [g[1]]
            tmpl = rng.choice([['v', rng.choice(vs)], ['f', 'w', [['v', x] for x in vs]], inner[0] if inner else ['v', vs[0]]])
        else:
            tmpl = rng.choice([['a', 'k'], ['v', vs[0]] if vs else ['i', 0]])
        out = [['c', 'findall', [tmpl, t, bag]]]
        q = rng.random()
        if q < 0.55:
            out.append(['as', rng.random() < 0.2, ['f', 'bag', [bag]]])
        elif q < 0.7:
            out.append(['u', bag, ['f', '.', [fresh(), fresh()]]])       # the rest runs only if there was an answer
    if depth == 0 and rng.random() < 0.2 and out[-1][0] == 'c' and len(out) == 1:
        # once(call(..)), call(findall(..)), findall(X, once(retract(..)), L), ...
        return meta_wrap(rng, out[0], fresh, 1)
    return out

def decorate_meta(rng, case, p=0.6):
    """a copy of the dbprog case in which a share p of the database goals and calls (in the main and helper clauses, inside
    the branches of control constructs too) are reached through call/N, once/1, findall/3, also via a goal held in a bound
    variable; bags of findall are stored under bag/1 so that they are observable; the case is marked 'meta' (model:
    DbProgMeta)"""
    import json
    case = json.loads(json.dumps(case))
    hit = [0]
    for c in case['clauses']:
        if c['name'] == 'init':
            continue
        nv = [c['nv']]
        def fresh():
            nv[0] += 1
            return ['v', nv[0] - 1]
        def dec(gs):
            out = []
            for g in gs:
                if g[0] in ('or', 'if', 'ifthen', 'not'):
                    out.append([g[0]] + [dec(sub) for sub in g[1:]])
                elif g[0] in ('as', 're', 'ra', 'c') and g[-1] != 'py' and rng.random() < p:
                    hit[0] += 1
                    out.extend(meta_wrap(rng, g, fresh))
                else:
                    out.append(g)
            return out
        body = dec(c['body'])
        if nest_depth(body) + len(c['head']) > 15 or code_size(body) > 120:
            continue
        c['body'] = body
        c['nv'] = nv[0]
    case['meta'] = True
    case['meta_goals'] = hit[0]
    if ['bag', 1] not in case['reads']:
        case['reads'] = case['reads'] + [['bag', 1]]
    return case

def gen_dbprog_meta(rng, loopy=0.6, ctrl=0.4):
    for _ in range(20):
        case = decorate_meta(rng, gen_dbprog(rng, loopy, ctrl))
        if case['meta_goals']:
            break
    return case

def gen_dbprog_grown(rng, loopy=0.6, ctrl=0.3):
    """round 4: a generated program whose init clause (>= 3 asserts) is run 4-8 times before the main clause, so that the
    predicates the main clause enumerates, updates and queries with bound arguments hold about 12-40 facts (one clause body
    cannot assert more than ~18: CPython's limit of nested blocks); compared with DbProg like every other program"""
    for _ in range(50):
        case = gen_dbprog(rng, loopy, ctrl)
        if sum(1 for g in case['clauses'][0]['body'] if g[0] == 'as') >= 3:
            break
    k = rng.choice([4, 5, 6, 8])
    case['queries'] = [case['queries'][0]] * k + case['queries'][1:]
    case['grown'] = k
    return case

def dbprog_corpus():
    v = lambda i: ['v', i]
    f = lambda n, *xs: ['f', n, list(xs)]
    I = lambda n: ['i', n]
    a, b = ['a', 'a'], ['a', 'b']
    fail = ['u', a, b]
    def case(clauses, queries, reads):
        return {'kind': 'dbprog', 'clauses': [dict(zip(('name', 'nv', 'head', 'body'), c)) for c in clauses], 'queries': queries, 'reads': reads}
    L = []
    # D15: t(X) :- assertz(p(1)), p(X), assertz(p(2)).
    L.append(case([('t', 1, [v(0)], [['as', False, f('p', I(1))], ['c', 'p', [v(0)]], ['as', False, f('p', I(2))]])],
                  [['t', [v(0)], 1]], [['p', 1]]))
    # counter: bump :- retract(c(N)), assertz(c(s(N))), fail.  bump.
    L.append(case([('init', 0, [], [['as', False, f('c', I(0))], ['as', False, f('c', I(0))]]),
                   ('bump', 1, [], [['re', f('c', v(0))], ['as', False, f('c', f('s', v(0)))], fail]), ('bump', 0, [], [])],
                  [['init', [], 0], ['bump', [], 0], ['bump', [], 0]], [['c', 1]]))
    # drain with duplicates, nested retract on the same predicate, a fact re-asserted meanwhile
    L.append(case([('init', 0, [], [['as', False, f('p', a)], ['as', False, f('p', a)], ['as', False, f('p', b)]]),
                   ('m', 2, [], [['re', f('p', v(0))], ['re', f('p', a)], ['as', False, f('p', a)], ['as', True, f('q', v(0))], fail]), ('m', 0, [], [])],
                  [['init', [], 0], ['m', [], 0]], [['p', 1], ['q', 1]]))
    # D3/D4/D5 from compiled code: zero-argument facts, unknown predicates, goals in bound variables
    L.append(case([('m', 2, [], [['as', False, ['a', 'flag']], ['c', 'flag', []], ['re', ['a', 'flag']], ['ra', f('nope', v(0))],
                                ['u', v(1), f('p', I(7))], ['as', False, v(1)], ['u', v(0), f('p', v(0))] if False else ['c', 'p', [v(0)]]])],
                  [['m', [], 0]], [['flag', 0], ['p', 1], ['nope', 1]]))
    # non-ground facts used twice from the asserting clause (C13 from compiled code)
    L.append(case([('m', 2, [v(0)], [['as', False, f('p', v(1))], ['c', 'p', [a]], ['c', 'p', [b]], ['c', 'p', [v(0)]]])],
                  [['m', [v(0)], 1]], [['p', 1]]))
    # ---- control constructs around database operations (round 5)
    cut = ['cut']
    z = ['a', 'z']
    # the counter with a cut:  t :- retract(c(N)), !, N1 = s(N), assertz(c(N1)).   (one counter per call, the rest untouched)
    L.append(case([('init', 0, [], [['as', False, f('c', I(0))], ['as', False, f('c', I(5))]]),
                   ('t', 2, [], [['re', f('c', v(0))], cut, ['u', v(1), f('s', v(0))], ['as', False, f('c', v(1))]])],
                  [['init', [], 0], ['t', [], 0], ['t', [], 0], ['t', [], 0]], [['c', 1]]))
    # ( p(X) -> retract(p(X)) ; assertz(p(a)) ): toggles
    L.append(case([('m', 1, [], [['if', [['c', 'p', [v(0)]]], [['re', f('p', v(0))]], [['as', False, f('p', a)]]]])],
                  [['m', [], 0], ['m', [], 0], ['m', [], 0]], [['p', 1]]))
    # \+ p(_), assertz(p(1)): stores once
    L.append(case([('m', 1, [], [['not', [['c', 'p', [v(0)]]]], ['as', False, f('p', I(1))]])],
                  [['m', [], 0], ['m', [], 0]], [['p', 1]]))
    # a cut under \+ / inside a condition is local to it; what the condition wrote stays
    L.append(case([('init', 0, [], [['as', False, f('p', a)], ['as', False, f('p', b)]]),
                   ('m', 1, [], [['not', [['c', 'p', [v(0)]], cut, ['fail']]], ['as', False, f('q', I(1))]]),
                   ('m', 1, [], [['as', False, f('q', I(2))]]),
                   ('n', 1, [], [['if', [['re', f('p', v(0))], cut, ['fail']], [], [['as', False, f('q', v(0))]]]]),
                   ('n', 1, [], [['as', False, f('q', I(3))]])],
                  [['init', [], 0], ['m', [], 0], ['n', [], 0]], [['p', 1], ['q', 1]]))
    # a cut discards branches that have already written; the second clause is not tried
    L.append(case([('m', 1, [], [['or', [['as', False, f('p', I(1))]], [['as', False, f('p', I(2))]]], ['c', 'p', [v(0)]], cut, ['as', False, f('q', v(0))]]),
                   ('m', 1, [], [['as', False, f('q', z)]])],
                  [['m', [], 0], ['m', [], 0]], [['p', 1], ['q', 1]]))
    # a cut in a helper ends the helper only: the caller keeps its alternatives
    L.append(case([('init', 0, [], [['as', False, f('p', a)], ['as', False, f('p', b)]]),
                   ('h', 1, [v(0)], [['c', 'p', [v(0)]], cut]), ('h', 1, [z], []),
                   ('m', 2, [v(0), v(1)], [['c', 'p', [v(0)]], ['c', 'h', [v(1)]], ['as', False, f('q', v(0), v(1))]]),
                   ('m', 2, [z, z], [])],
                  [['init', [], 0], ['m', [v(0), v(1)], 2]], [['p', 1], ['q', 2]]))
    # a condition that writes and fails; the else branch sees what it wrote
    L.append(case([('m', 1, [], [['if', [['as', False, f('p', I(1))], ['fail']], [], [['c', 'p', [v(0)]], ['as', False, f('q', v(0))]]]])],
                  [['m', [], 0], ['m', [], 0]], [['p', 1], ['q', 1]]))
    # copy loop with a negation guard:  m :- p(X), \+ q(X), assertz(q(X)), fail.  m.
    L.append(case([('init', 0, [], [['as', False, f('p', a)], ['as', False, f('p', b)], ['as', False, f('p', a)]]),
                   ('m', 1, [], [['c', 'p', [v(0)]], ['not', [['c', 'q', [v(0)]]]], ['as', False, f('q', v(0))], ['fail']]), ('m', 0, [], [])],
                  [['init', [], 0], ['m', [], 0]], [['p', 1], ['q', 1]]))
    # if-then without else, disjunction whose left side is an if-then (= if-then-else), once-like retract
    L.append(case([('init', 0, [], [['as', False, f('p', a)], ['as', False, f('p', b)]]),
                   ('m', 1, [v(0)], [['ifthen', [['re', f('p', v(0))]], [['as', True, f('q', v(0))]]]]),
                   ('n', 1, [v(0)], [['or', [['ifthen', [['c', 'p', [v(0)]]], [['as', False, f('q', v(0))]]]], [['as', False, f('q', z)]]]])],
                  [['init', [], 0], ['m', [v(0)], 1], ['n', [v(0)], 1], ['m', [v(0)], 1], ['m', [v(0)], 1], ['n', [v(0)], 1]], [['p', 1], ['q', 1]]))
    # Python predicates (register_function) that update the database with the argument objects they receive from compiled
    # code: what is stored is what the clause variables denote at that moment:  m :- p(X), py_assertz_q(who(X)), ..., fail.  m.
    L.append(case([('init', 0, [], [['as', False, f('p', a)], ['as', False, f('p', f('f', b))], ['as', False, f('p', I(1))]]),
                   ('m', 1, [], [['c', 'p', [v(0)]], ['as', False, f('q', f('who', v(0))), 'py'], ['as', True, f('r', v(0), v(0)), 'py'], ['fail']]),
                   ('m', 0, [], []),
                   ('n', 2, [], [['c', 'q', [v(0)]], ['re', f('r', v(1), v(1)), 'py'], ['as', False, f('p', f('g', v(0), v(1))), 'py'],
                                 ['ra', f('q', v(0)), 'py'], ['fail']]),
                   ('n', 0, [], [])],
                  [['init', [], 0], ['m', [], 0], ['n', [], 0]], [['p', 1], ['q', 1], ['r', 2]]))
    L[-1]['py'] = True
    # [] stored by compiled code, asked for through the API after a clear() (and the other way round)
    nil = ['a', '[]']
    c = case([('init', 0, [], [['as', False, f('p', nil)], ['as', False, f('p', f('f', nil))]]),
              ('m', 1, [v(0)], [['c', 'p', [nil]], ['re', f('p', f('f', v(0)))], ['as', False, f('q', v(0))]])],
             [['init', [], 0], ['m', [nil], 1], ['m', [v(0)], 1]], [['p', 1], ['q', 1]])
    for cf, nq, an in [(True, None, 'atom'), (True, 'pat', 'ATOM_NIL'), (True, 'fact', 'makelist'), (False, 'pat', 'atom')]:
        c2 = dict(c); c2['clear_first'] = cf; c2['nilq'] = nq; c2['api_nil'] = an
        L.append(c2)
    # ---- round 6: the database reached through call/N, once/1, findall/3 (model: DbProgMeta)
    def mcase(clauses, queries, reads):
        c = case(clauses, queries, reads); c['meta'] = True
        L.append(c)
    C = lambda name, *xs: ['c', name, list(xs)]
    at = lambda n: ['a', n]
    init2 = ('init', 0, [], [['as', False, f('p', a)], ['as', False, f('p', b)]])
    # t(L) :- findall(X, retract(p(X)), L).   u :- p(X), call(assertz, p(X)), fail.  u.   v(L) :- G = p(X), findall(X, call(G), L).
    mcase([init2, ('t', 2, [v(0)], [C('findall', v(1), f('retract', f('p', v(1))), v(0))]),
           ('u', 1, [], [C('p', v(0)), C('call', at('assertz'), f('p', v(0))), ['fail']]), ('u', 0, [], []),
           ('v', 3, [v(0)], [['u', v(2), f('p', v(1))], C('findall', v(1), f('call', v(2)), v(0))])],
          [['init', [], 0], ['u', [], 0], ['v', [v(0)], 1], ['t', [v(0)], 1], ['t', [v(0)], 1]], [['p', 1]])
    # bump :- once(retract(c(N))), assertz(c(s(N))).   w(X,L) :- p(X), findall(Y, retract(p(Y)), L), assertz(p(X)).
    # z(X) :- p(X), G = retract(p(X)), call(G), call(assertz, p(f(X))).
    mcase([('init', 0, [], [['as', False, f('p', a)], ['as', False, f('p', b)], ['as', False, f('c', I(0))], ['as', False, f('c', I(5))]]),
           ('bump', 1, [], [C('once', f('retract', f('c', v(0)))), ['as', False, f('c', f('s', v(0)))]]),
           ('w', 3, [v(0), v(1)], [C('p', v(0)), C('findall', v(2), f('retract', f('p', v(2))), v(1)), ['as', False, f('p', v(0))]]),
           ('z', 2, [v(0)], [C('p', v(0)), ['u', v(1), f('retract', f('p', v(0)))], C('call', v(1)), C('call', at('assertz'), f('p', f('f', v(0))))])],
          [['init', [], 0], ['bump', [], 0], ['bump', [], 0], ['w', [v(0), v(1)], 2], ['z', [v(0)], 1]], [['p', 1], ['c', 1]])
    # the goal of findall updates the predicate it enumerates (snapshot inside findall); the bag is stored; a rule as the goal,
    # with a cut of its own; call/3 on a dynamic predicate; once on a rule that writes before it answers
    mcase([init2, ('h', 1, [v(0)], [C('p', v(0)), ['as', False, f('p', f('f', v(0)))], cut]), ('h', 1, [z], []),
           ('m', 3, [v(0)], [C('findall', v(1), f('h', v(1)), v(2)), ['as', False, f('bag', v(2))], C('call', at('p'), v(0)),
                             C('once', f('h', v(1))), C('call', f('retract', f('p', v(0))))]),
           ('n', 2, [v(0), v(1)], [C('call', f('r', v(0)), v(1))]),
           ('k', 3, [], [C('findall', f('w', v(0), v(1)), f('call', at('r'), v(0), v(1)), v(2)), C('call', at('retractall'), f('r', v(0), v(1))),
                         C('call', f('call', f('assertz', f('bag', v(2)))))])],
          [['init', [], 0], ['m', [v(0)], 1], ['n', [v(0), v(1)], 2], ['k', [], 0]], [['p', 1], ['bag', 1], ['r', 2]])
    # facts stored under the names of the builtins are answers of the query, before the builtin runs (YP.query: match_dynamic first)
    mcase([('m', 2, [v(0)], [['as', False, f('call', f('x', I(1)))], ['as', False, f('once', a)], C('call', f('x', v(0))), C('once', a),
                             C('call', at('call'), f('x', v(1)))]),
           ('x', 0, [I(2)], [])],
          [['m', [v(0)], 1]], [['call', 1], ['once', 1]])
    # findall / call of an unknown predicate: empty bag resp. failure, nothing raises (a conjunction as a goal TERM is not
    # expressible in this grammar; a control construct reached through call has no function: no answer)
    mcase([init2, ('m', 2, [v(0)], [C('findall', v(1), f('nope', v(1)), v(0)), ['as', False, f('bag', v(0))], C('call', at('nope'), v(1))]),
           ('m', 2, [v(0)], [C('findall', v(1), f('once', f('retract', f('p', v(1)))), v(0))])],
          [['init', [], 0], ['m', [v(0)], 1]], [['p', 1]])
    return L
