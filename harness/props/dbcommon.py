"""Shared machinery of the database checks (C07, C14): event histories over the dynamic fact
database, run through the implementation (public API: YP.query with the builtins, assert_fact,
clear, compiled wrapper clauses, call/1) and through the Coq model Engine/DbCursor.v.

Event (JSON):
  ['assert', front, term, via]        via: 'builtin' | 'boundvar' | 'compiled' | 'api'
  ['start', c, 'q', name, args, via]  via: 'api' | 'compiled' | 'call'
  ['start', c, 'r', term, via]        via: 'builtin' | 'boundvar' | 'compiled'
  ['next', c]   ['close', c]
  ['retractall', term, via]           via: 'builtin' | 'boundvar' | 'compiled'
  ['qall', name, args]
  ['clear']
Every event has its own variables (indices are local to the event).  After every event all keys of
the case are read back with all-variable queries.
"""
import itertools
from lib import terms
from lib.terms import g_term, g_list, g_nat, g_str, g_bool

NAMES = ['p', 'q', 'flag']
MAXAR = 3

def wrapper_source():
    lines = ['w_assertz(T) :- assertz(T).', 'w_asserta(T) :- asserta(T).', 'w_retract(T) :- retract(T).',
             'w_retractall(T) :- retractall(T).']
    for n in NAMES:
        for ar in range(MAXAR + 1):
            if ar == 0:
                lines.append('wq_%s_0 :- %s.' % (n, n))
            else:
                vs = ','.join('A%d' % i for i in range(ar))
                lines.append('wq_%s_%d(%s) :- %s(%s).' % (n, ar, vs, n, vs))
    return '\n'.join(lines) + '\n'

_WRAP = None
def wrapper_python():
    global _WRAP
    if _WRAP is None:
        from yldprolog import compiler
        _WRAP = compiler.compile_prolog_from_string(wrapper_source())
    return _WRAP

# ------------------------------------------------------------------ canonical forms

def canon_args(obs_args):
    """obs of a list of terms -> obs with variables renamed by first occurrence"""
    ts = terms.rename_canonical([terms.obs_term(o) for o in obs_args])
    return [terms.term_obs(t) for t in ts]

def canon_event_obs(o):
    if isinstance(o, list) and o:
        if o[0] == 'ans':
            return ['ans', canon_args(o[1])]
        if o[0] == 'all':
            return ['all', [canon_args(a) for a in o[1]]]
    return o

def callable_key(t):
    if t[0] == 'f':
        return (t[1], len(t[2]))
    if t[0] == 'a':
        return (t[1], 0)
    return None

def case_keys(events):
    ks = []
    def add(k):
        if k is not None and list(k) not in ks:
            ks.append(list(k))
    for e in events:
        if e[0] == 'assert' or e[0] == 'retractall':
            add(callable_key(e[2] if e[0] == 'assert' else e[1]))
        elif e[0] == 'start':
            if e[2] == 'q':
                add((e[3], len(e[4])))
            else:
                add(callable_key(e[3]))
        elif e[0] == 'qall':
            add((e[1], len(e[2])))
    return ks

# ------------------------------------------------------------------ model side

def g_ev(e):
    k = e[0]
    if k == 'assert':
        if e[3] == 'api':
            key = callable_key(e[2])
            args = e[2][2] if e[2][0] == 'f' else []
            return '(EAssertFact %s %s %s)' % (g_str(key[0]), g_list([g_term(a) for a in args]), g_bool(not e[1]))
        return '(EAssert %s %s)' % (g_bool(e[1]), g_term(e[2]))
    if k == 'start':
        if e[2] == 'q':
            return '(EStart %s (QQuery %s %s))' % (g_nat(e[1]), g_str(e[3]), g_list([g_term(a) for a in e[4]]))
        return '(EStart %s (QRetract %s))' % (g_nat(e[1]), g_term(e[3]))
    if k == 'next':
        return '(ENext %s)' % g_nat(e[1])
    if k == 'close':
        return '(EClose %s)' % g_nat(e[1])
    if k == 'retractall':
        return '(ERetractAll %s)' % g_term(e[1])
    if k == 'qall':
        return '(EQueryAll %s %s)' % (g_str(e[1]), g_list([g_term(a) for a in e[2]]))
    if k == 'clear':
        return 'EClear'
    raise ValueError(e)

def readback_events(keys):
    return [['qall', n, [['v', i] for i in range(ar)]] for n, ar in keys]

def model_expr(case):
    evs = []
    rb = readback_events(case['keys'])
    for e in case['events']:
        evs.append(g_ev(e))
        evs.extend(g_ev(r) for r in rb)
    return '(run_events 200 %s)' % g_list(evs)

def split_model_obs(case, mo):
    """model observation (flat list, one per event incl. read-backs) -> list of [event_obs, readbacks] and
    the index of the first stuck event (or None)"""
    nk = len(case['keys'])
    out = []
    stuck = None
    i = 0
    for ei in range(len(case['events'])):
        chunk = mo[i:i + 1 + nk]
        i += 1 + nk
        if len(chunk) < 1 + nk or any(c == ['stuck'] for c in chunk):
            stuck = ei
            break
        out.append([canon_event_obs(chunk[0]), [canon_event_obs(c)[1] for c in chunk[1:]]])
    return out, stuck

# ------------------------------------------------------------------ implementation side

class Deep(Exception):
    pass

def _drain(g, limit=10000):
    n = 0
    for _ in g:
        n += 1
        if n > limit:
            raise RuntimeError('more than %d answers' % limit)
    return n

class Driver:
    def __init__(self):
        from yldprolog import engine as E
        self.E = E
        self.yp = E.YP()
        self.yp.load_script_from_string(wrapper_python())
        self.cursors = {}
        self.held = []

    def wrap_bound(self, T, obj):
        """a goal that arrives in a bound variable"""
        G = self.yp.variable()
        h = iter(self.E.unify(G, obj))
        next(h)
        self.held.append(h)
        return G

    def once_builtin(self, name, arg):
        """run a deterministic builtin through query(): 'ok' = exactly one answer"""
        g = self.yp.query(name, [arg])
        n = 0
        try:
            next(g); n = 1
            next(g); n = 2
        except StopIteration:
            pass
        g.close()
        return ['ok'] if n == 1 else (['fail'] if n == 0 else ['multi'])

    def read_args(self, T, objs):
        try:
            return canon_args([terms.term_obs(T.read(o)) for o in objs])
        except RecursionError:
            raise Deep()

    def readback(self, keys):
        out = []
        for n, ar in keys:
            T = terms.ImplTerms(self.yp)
            vs = [T.var(i) for i in range(ar)]
            res = []
            g = self.yp.query(n, vs)
            for _ in g:
                res.append(self.read_args(T, vs))
                if len(res) > 5000:
                    g.close()
                    raise RuntimeError('read-back does not end')
            out.append(res)
        return out

    def event(self, e):
        yp = self.yp
        k = e[0]
        T = terms.ImplTerms(yp)
        if k == 'assert':
            front, t, via = e[1], e[2], e[3]
            if via == 'api':
                key = callable_key(t)
                args = [T.build(a) for a in (t[2] if t[0] == 'f' else [])]
                r = yp.assert_fact(yp.atom(key[0]), args, not front)
                return ['ok'] if r is None else ['returned', repr(r)]
            obj = T.build(t)
            name = 'asserta' if front else 'assertz'
            if via == 'boundvar':
                obj = self.wrap_bound(T, obj)
            elif via == 'compiled':
                name = 'w_' + name
            return self.once_builtin(name, obj)
        if k == 'retractall':
            t, via = e[1], e[2]
            obj = T.build(t)
            orig = obj
            name = 'retractall'
            if via == 'boundvar':
                obj = self.wrap_bound(T, obj)
            elif via == 'compiled':
                name = 'w_retractall'
            r = self.once_builtin(name, obj)
            # retractall must leave the pattern as it was
            if r == ['ok'] and terms.rename_canonical([T.read(orig)]) != terms.rename_canonical([t]):
                return ['ok-but-pattern-bound']
            return r
        if k == 'start':
            c = e[1]
            if e[2] == 'q':
                name, args, via = e[3], e[4], e[5]
                objs = [T.build(a) for a in args]
                if via == 'api':
                    g = yp.query(name, objs)
                elif via == 'compiled':
                    g = yp.query('wq_%s_%d' % (name, len(objs)), objs)
                else:
                    goal = yp.functor(name, objs) if objs else yp.atom(name)
                    g = yp.query('call', [self.wrap_bound(T, goal)])
                self.cursors[c] = (g, T, objs)
            else:
                t, via = e[3], e[4]
                obj = T.build(t)
                objs = obj._args if t[0] == 'f' else []
                name = 'retract'
                if via == 'boundvar':
                    obj = self.wrap_bound(T, obj)
                elif via == 'compiled':
                    name = 'w_retract'
                g = yp.query(name, [obj])
                self.cursors[c] = (g, T, objs)
            return ['ok']
        if k == 'next':
            if e[1] not in self.cursors:
                return ['bad']
            g, T, objs = self.cursors[e[1]]
            try:
                next(g)
            except StopIteration:
                return ['end']
            return ['ans', self.read_args(T, objs)]
        if k == 'close':
            if e[1] not in self.cursors:
                return ['bad']
            self.cursors[e[1]][0].close()
            return ['ok']
        if k == 'qall':
            objs = [T.build(a) for a in e[2]]
            res = []
            g = yp.query(e[1], objs)
            for _ in g:
                res.append(self.read_args(T, objs))
                if len(res) > 5000:
                    g.close()
                    raise RuntimeError('query does not end')
            return ['all', res]
        if k == 'clear':
            r = yp.clear()
            yp.load_script_from_string(wrapper_python())
            return ['ok'] if r is None else ['returned', repr(r)]
        raise ValueError(e)

    def finish(self):
        for g, _, _ in self.cursors.values():
            g.close()
        for h in self.held:
            h.close()

def drive_events(case):
    """-> list of [event_obs, [readback per key]]; an exception of the implementation ends the list
    with ['raised', class]; a cyclic term ends it with ['deep']"""
    d = Driver()
    out = []
    try:
        for e in case['events']:
            try:
                o = d.event(e)
                rb = d.readback(case['keys'])
            except Deep:
                out.append(['deep'])
                break
            except RecursionError:
                out.append(['deep'])
                break
            except Exception as ex:
                out.append(['raised', type(ex).__name__, str(ex)[:200]])
                break
            out.append([o, rb])
    finally:
        try:
            d.finish()
        except Exception:
            pass
    return out

def compare_events(case, io, mo):
    m, stuck = split_model_obs(case, mo)
    for i, (a, b) in enumerate(itertools.zip_longest(io, m)):
        if stuck is not None and i >= stuck:
            return None                      # outside the specified domain from here on
        if a is None or b is None:
            return 'event %d: implementation produced %r, model %r' % (i, a, b)
        if a == ['deep']:
            return 'event %d: implementation built a cyclic/deep term, the model did not (%r)' % (i, b)
        if a[0] == 'raised':
            return 'event %d %r: implementation raised %s (%s); model: %r' % (i, case['events'][i], a[1], a[2], b[0])
        if a[0] != b[0]:
            return 'event %d %r: implementation %r, model %r' % (i, case['events'][i], a[0], b[0])
        if a[1] != b[1]:
            return 'after event %d %r: database read back as %r, model %r' % (i, case['events'][i], a[1], b[1])
    return None

# ------------------------------------------------------------------ intrinsic oracle (no model)

def _is_one_removed(before, after):
    if len(after) != len(before) - 1:
        return False
    for i in range(len(before)):
        if before[:i] + before[i + 1:] == after:
            return True
    return False

def _is_subsequence(small, big):
    it = iter(big)
    return all(any(x == y for y in it) for x in small)

def list_oracle(case, io):
    """the property's own conditions that can be stated on the implementation alone"""
    keys = [tuple(k) for k in case['keys']]
    prev = [[] for _ in keys]
    cur_key = {}
    for i, (e, o) in enumerate(zip(case['events'], io)):
        if o == ['deep']:
            return None
        if o[0] == 'raised':
            return 'event %d %r raised %s: %s' % (i, e, o[1], o[2])
        r, rb = o
        if r in (['multi'], ['ok-but-pattern-bound']) or r[0] == 'returned':
            return 'event %d %r: %s' % (i, e, r[0])
        k = None
        if e[0] == 'assert':
            k = callable_key(e[2])
        elif e[0] == 'retractall':
            k = callable_key(e[1])
        elif e[0] == 'start':
            cur_key[e[1]] = (e[3], len(e[4])) if e[2] == 'q' else callable_key(e[3])
            cur_key[e[1]] = (cur_key[e[1]], e[2])
        for j, kk in enumerate(keys):
            changed = rb[j] != prev[j]
            if e[0] == 'assert' and kk == k:
                if r != ['ok']:
                    return 'event %d %r: assert did not succeed exactly once' % (i, e)
                fact = canon_args([terms.term_obs(a) for a in (e[2][2] if e[2][0] == 'f' else [])])
                want = [fact] + prev[j] if e[1] else prev[j] + [fact]
                if rb[j] != want:
                    return 'event %d %r: facts of %s/%d are %r, expected %r' % (i, e, kk[0], kk[1], rb[j], want)
            elif e[0] == 'retractall' and kk == k:
                if r != ['ok']:
                    return 'event %d %r: retractall did not succeed exactly once' % (i, e)
                if not _is_subsequence(rb[j], prev[j]):
                    return 'event %d %r: retractall changed the order or added facts' % (i, e)
            elif e[0] == 'clear':
                if rb[j]:
                    return 'event %d: facts left after clear: %r' % (i, rb[j])
            elif e[0] == 'next' and e[1] in cur_key and cur_key[e[1]] == (kk, 'r'):
                if r[0] == 'ans':
                    if not _is_one_removed(prev[j], rb[j]):
                        return 'event %d %r: an answer of retract did not remove exactly one fact (%r -> %r)' % (i, e, prev[j], rb[j])
                elif changed:
                    return 'event %d %r: retract without answer changed the facts' % (i, e)
            elif changed:
                return 'event %d %r changed the facts of %s/%d (%r -> %r)' % (i, e, kk[0], kk[1], prev[j], rb[j])
        if e[0] == 'qall':
            kk = (e[1], len(e[2]))
            if kk in keys and len(r[1]) > len(prev[keys.index(kk)]):
                return 'event %d: more answers than facts' % i
        prev = rb
    return None

# ------------------------------------------------------------------ generation

ATOMS = ['a', 'b', 'c']

def gen_arg(rng, nv, pvar):
    q = rng.random()
    if q < pvar and nv > 0:
        return ['v', rng.randrange(nv)]
    if q < pvar + 0.08 and nv > 0:
        return ['f', 'f', [['v', rng.randrange(nv)]]]
    q = rng.random()
    if q < 0.55:
        return ['a', rng.choice(ATOMS)]
    if q < 0.7:
        return ['i', rng.choice([1, 2])]
    if q < 0.85:
        return ['f', 'f', [['a', rng.choice(ATOMS[:2])]]]
    if q < 0.9:
        return ['s', rng.choice(['a', 'x'])]
    if q < 0.95:
        return terms.mklist([['a', 'a']], ['v', rng.randrange(nv)] if nv and rng.random() < 0.5 else None)
    return ['f', 'g', [['a', 'a'], ['i', 1]]]

def gen_goal(rng, name, ar, pvar):
    if ar == 0:
        return ['a', name] if rng.random() < 0.85 else ['f', name, []]
    nv = rng.choice([1, 2, 2, 3])
    return ['f', name, [gen_arg(rng, nv, pvar) for _ in range(ar)]]

def pick_key(rng, keys):
    return rng.choice(keys)

def shrink_events(case):
    evs = case['events']
    n = len(evs)
    # drop tails first, then single events
    for cut in (n // 2, n - 1):
        if 0 < cut < n:
            c = dict(case); c['events'] = evs[:cut]; c['keys'] = case_keys(c['events'])
            yield c
    for i in range(n):
        c = dict(case); c['events'] = evs[:i] + evs[i + 1:]; c['keys'] = case_keys(c['events'])
        yield c
    for i, e in enumerate(evs):
        if e[0] in ('assert', 'retractall') and e[-1] != 'builtin':
            e2 = list(e); e2[-1] = 'builtin'
            c = dict(case); c['events'] = evs[:i] + [e2] + evs[i + 1:]
            yield c
        if e[0] == 'start' and e[-1] not in ('api', 'builtin'):
            e2 = list(e); e2[-1] = 'api' if e[2] == 'q' else 'builtin'
            c = dict(case); c['events'] = evs[:i] + [e2] + evs[i + 1:]
            yield c

def show_event(e):
    st = terms.show_term
    if e[0] == 'assert':
        return '%s(%s) [%s]' % ('asserta' if e[1] else 'assertz', st(e[2]), e[3])
    if e[0] == 'start':
        if e[2] == 'q':
            return 'c%d := %s(%s) [%s]' % (e[1], e[3], ','.join(st(a) for a in e[4]), e[5])
        return 'c%d := retract(%s) [%s]' % (e[1], st(e[3]), e[4])
    if e[0] in ('next', 'close'):
        return '%s c%d' % (e[0], e[1])
    if e[0] == 'retractall':
        return 'retractall(%s) [%s]' % (st(e[1]), e[2])
    if e[0] == 'qall':
        return 'all %s(%s)' % (e[1], ','.join(st(a) for a in e[2]))
    return e[0]

def gen_history(rng, nops, interleave, nkeys=None):
    """A history of about nops operations.  interleave = probability that a cursor is left suspended
    while other operations run (0 = every retract/query block is atomic)."""
    nkeys = nkeys or rng.choice([1, 2, 2, 3])
    keys = []
    while len(keys) < nkeys:
        k = (rng.choice(NAMES), rng.choice([0, 1, 1, 1, 2, 2, 3]))
        if k not in keys:
            keys.append(k)
    # most activity on the first key so that lists get long enough to matter
    def key():
        return keys[0] if rng.random() < 0.6 else rng.choice(keys)
    evs = []
    live = {}          # cursor id -> remaining planned nexts
    nextc = 0
    def fact_term(k):
        return gen_goal(rng, k[0], k[1], 0.12)
    def pat_term(k):
        return gen_goal(rng, k[0], k[1], rng.choice([0.3, 0.6, 0.9]))
    n0 = rng.choice([0, 2, 3, 4, 5])
    for _ in range(n0):
        k = key()
        evs.append(['assert', rng.random() < 0.25, fact_term(k), rng.choice(['builtin', 'api', 'api'])])
    while len(evs) < n0 + nops:
        if live and rng.random() < 0.55:
            c = rng.choice(sorted(live))
            if live[c] <= 0 or rng.random() < 0.08:
                evs.append(['close', c]); del live[c]
            else:
                evs.append(['next', c]); live[c] -= 1
                if rng.random() < 0.03:
                    evs.append(['next', c])
            continue
        q = rng.random()
        k = key()
        if q < 0.34:
            evs.append(['assert', rng.random() < 0.4, fact_term(k),
                        rng.choice(['builtin', 'builtin', 'boundvar', 'compiled', 'api'])])
        elif q < 0.62:
            c = nextc; nextc += 1
            evs.append(['start', c, 'r', pat_term(k), rng.choice(['builtin', 'builtin', 'boundvar', 'compiled'])])
            planned = rng.choice([1, 1, 2, 3, 6])
            if rng.random() < interleave:
                live[c] = planned
            else:
                evs.extend(['next', c] for _ in range(planned))
                if rng.random() < 0.7:
                    evs.append(['close', c])
        elif q < 0.84:
            c = nextc; nextc += 1
            p = pat_term(k)
            args = p[2] if p[0] == 'f' else []
            evs.append(['start', c, 'q', k[0], args, rng.choice(['api', 'api', 'compiled', 'call'])])
            planned = rng.choice([1, 2, 3, 6])
            if rng.random() < interleave:
                live[c] = planned
            else:
                evs.extend(['next', c] for _ in range(planned))
                if rng.random() < 0.7:
                    evs.append(['close', c])
        elif q < 0.93:
            evs.append(['retractall', pat_term(k), rng.choice(['builtin', 'builtin', 'boundvar', 'compiled'])])
        elif q < 0.97:
            p = pat_term(k)
            evs.append(['qall', k[0], p[2] if p[0] == 'f' else []])
        else:
            evs.append(['clear'])
    for c in sorted(live):
        if rng.random() < 0.5:
            evs.append(['next', c])
    return {'events': evs, 'keys': case_keys(evs)}
