(* PROTOTYPE (design-phase feasibility probe): control semantics of bodies and of the emitted IR *)
From Coq Require Import List Arith Bool Lia.
Import ListNotations.
Set Implicit Arguments.

Inductive body :=
| BCall (g:nat) | BTrue | BFail | BCut | BCutIf (l:nat)
| BAnd (a b:body) | BOr (a b:body) | BIf (c t:body) | BNot (a:body).

Inductive fin := FNorm | FCut | FErr | FExit (l:nat).
Definition res (S:Type) := (list S * fin)%type.

Section Sem.
Variable S : Type.
Variable I : nat -> S -> list S * bool.

Fixpoint seqr (f:S -> res S) (xs:list S) (e:fin) : res S :=
  match xs with
  | [] => ([],e)
  | x::r => let '(ys,g) := f x in
      match g with
      | FNorm => let '(zs,h) := seqr f r e in (ys++zs,h)
      | _ => (ys,g) end
  end.

Definition opaque (r:res S) : res S := match r with (xs,FCut) => (xs,FNorm) | _ => r end.

Definition ite (rc:res S) (t:S -> res S) (e:res S) : res S :=
  match rc with
  | (x::_,_) => t x
  | ([],FNorm) => e
  | ([],f) => ([],f)
  end.

Definition por (ra rb:res S) : res S :=
  match ra with (xs,FNorm) => let '(ys,g) := rb in (xs++ys,g) | r => r end.

Fixpoint sem (b:body) (s:S) : res S :=
  match b with
  | BCall g => let '(xs,e) := I g s in (xs, if e then FErr else FNorm)
  | BTrue => ([s],FNorm) | BFail => ([],FNorm) | BCut => ([s],FCut)
  | BCutIf l => ([s],FExit l)
  | BAnd a b => let '(xs,e) := sem a s in seqr (sem b) xs e
  | BOr a b =>
     match a with
     | BIf c t => ite (opaque (sem c s)) (sem t) (sem b s)
     | _ => por (sem a s) (sem b s)
     end
  | BIf c t => ite (opaque (sem c s)) (sem t) ([],FNorm)
  | BNot a => ite (opaque (sem a s)) (fun _ => ([],FNorm)) ([s],FNorm)
  end.
End Sem.
