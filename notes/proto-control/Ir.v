(* PROTOTYPE: IR, its CPython-level semantics, and compile_body as written (fuelled) *)
From Coq Require Import List Arith Bool Lia.
Import ListNotations.
From P Require Import Ctl.
Set Implicit Arguments.

Inductive stmt :=
| Foreach (g:nat) (body:list stmt)
| YieldF | YieldT | Return
| Block (l:nat) (body:list stmt)
| BreakBlock (l:nat).

Inductive compl := CNorm | CBrk | CRet | CErr.
Record flags := { doBreak : bool; lab : nat -> bool }.
Definition setlab l v (f:flags) := {| doBreak := doBreak f; lab := fun x => if Nat.eqb x l then v else lab f x |}.
Definition setbrk b (f:flags) := {| doBreak := b; lab := lab f |}.

Section Exec.
Variable S : Type.
Variable I : nat -> S -> list S * bool.
Definition out := (list S * compl * flags)%type.

Definition after_loop (r:out) : out :=
  let '(ys,k,f) := r in
  match k with CNorm => (ys, (if doBreak f then CBrk else CNorm), f) | _ => r end.

Section Loop.
  Variable body : S -> flags -> out.
  Fixpoint loop (e:bool) (xs:list S) (f:flags) : out :=
    match xs with
    | [] => ([], (if e then CErr else CNorm), f)
    | x::r => let '(ys,k,f1) := body x f in
        match k with
        | CNorm => let '(zs,k2,f2) := loop e r f1 in (ys++zs,k2,f2)
        | CBrk => (ys,CNorm,f1)
        | _ => (ys,k,f1) end
    end.
End Loop.

Definition end_block l (r:out) : out :=
  let '(ys,k,f1) := r in
  match k with
  | CNorm | CBrk =>
      let f2 := if lab f1 l then setbrk false f1 else f1 in
      (ys, (if doBreak f2 then CBrk else CNorm), f2)
  | _ => r end.

Fixpoint exec_stmt (st:stmt) (s:S) (f:flags) {struct st} : out :=
  let exec_list := fix exec_list (c:list stmt) (s:S) (f:flags) {struct c} : out :=
      match c with
      | [] => ([],CNorm,f)
      | st::rest => let '(ys,k,f1) := exec_stmt st s f in
          match k with
          | CNorm => let '(zs,k2,f2) := exec_list rest s f1 in (ys++zs,k2,f2)
          | _ => (ys,k,f1) end
      end in
  match st with
  | YieldF | YieldT => ([s],CNorm,f)
  | Return => ([],CRet,f)
  | BreakBlock l => ([],CBrk, setbrk true (setlab l true f))
  | Foreach g body =>
      let '(xs,e) := I g s in after_loop (loop (exec_list body) e xs f)
  | Block l body => end_block l (exec_list body s (setlab l false f))
  end.

Fixpoint exec_list (c:list stmt) (s:S) (f:flags) {struct c} : out :=
  match c with
  | [] => ([],CNorm,f)
  | st::rest => let '(ys,k,f1) := exec_stmt st s f in
      match k with
      | CNorm => let '(zs,k2,f2) := exec_list rest s f1 in (ys++zs,k2,f2)
      | _ => (ys,k,f1) end
  end.

Lemma exec_stmt_eq st s f : exec_stmt st s f =
  match st with
  | YieldF | YieldT => ([s],CNorm,f)
  | Return => ([],CRet,f)
  | BreakBlock l => ([],CBrk, setbrk true (setlab l true f))
  | Foreach g body =>
      let '(xs,e) := I g s in after_loop (loop (exec_list body) e xs f)
  | Block l body => end_block l (exec_list body s (setlab l false f))
  end.
Proof. destruct st; reflexivity. Qed.
End Exec.

(* compile_body, as written: syntactic continuation, label counter, fuel *)
Fixpoint comp (n:nat) (b:body) (cnt:nat) : option (list stmt * nat) :=
  match n with O => None | Datatypes.S n =>
  match b with
  | BAnd a K =>
    match a with
    | BCutIf l => match comp n K cnt with Some (c,k) => Some (c ++ [BreakBlock l],k) | None => None end
    | BCall g => match comp n K cnt with Some (c,k) => Some ([Foreach g c],k) | None => None end
    | BCut => match comp n K cnt with Some (c,k) => Some (c ++ [Return],k) | None => None end
    | BNot x => comp n (BAnd (BOr (BIf x BFail) BTrue) K) cnt
    | BAnd x y => comp n (BAnd x (BAnd y K)) cnt
    | BOr (BIf c t) e => comp n (BOr (BIf c (BAnd t K)) (BAnd e K)) cnt
    | BOr x y => comp n (BOr (BAnd x K) (BAnd y K)) cnt
    | BIf c t => comp n (BAnd (BOr (BIf c t) BFail) K) cnt
    | BTrue => comp n K cnt
    | BFail => Some ([],cnt)
    end
  | BOr (BIf c t) e =>
      let l := Datatypes.S cnt in
      match comp n (BOr (BAnd c (BAnd (BCutIf l) t)) e) l with
      | Some (code,k) => Some ([Block l code],k) | None => None end
  | BOr x y => match comp n x cnt with Some (c1,k1) =>
                 match comp n y k1 with Some (c2,k2) => Some (c1++c2,k2) | None => None end | None => None end
  | BIf _ _ | BCall _ | BNot _ | BFail | BCutIf _ => comp n (BAnd b BTrue) cnt
  | BTrue => Some ([YieldF],cnt)
  | BCut => Some ([YieldT;Return],cnt)
  end end.
