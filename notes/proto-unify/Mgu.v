(* PROTOTYPE: completeness / most-generality of the engine's unification on unifiable inputs *)
From Coq Require Import List Arith Bool Lia ZArith.
Import ListNotations.
From U Require Import Term Unify.
Set Implicit Arguments.

Definition sub := nat -> term.
Fixpoint app (th:sub) (t:term) : term :=
  match t with TVar v => th v | TFun f args => TFun f (map (app th) args) | _ => t end.
Fixpoint size (t:term) : nat :=
  match t with TFun _ args => S (fold_right (fun x n => size x + n) 0 args) | _ => 1 end.

(* th is an instance of the store: it respects every binding *)
Definition sat (th:sub) (s:store) := forall t, app th (den s t) = app th t.

Lemma app_subst1 th v a x : th v = app th a -> app th (subst1 v a x) = app th x.
Proof.
  intros H. induction x as [c|z|w|f args IH] using term_ind'; simpl; auto.
  - destruct (Nat.eqb w v) eqn:E; simpl; auto. apply Nat.eqb_eq in E; subst. symmetry; exact H.
  - f_equal. rewrite map_map. induction args as [|y l IHl]; simpl; auto.
    inversion IH; subst. rewrite H2, IHl; auto.
Qed.

Lemma sat_bind th s v a : wf s -> sat th s -> free_in s a -> th v = app th a -> sat th ((v,a)::s).
Proof.
  intros W St F H t. simpl. rewrite (den_id F). rewrite app_subst1; auto.
Qed.

Lemma size_pos t : 1 <= size t. Proof. destruct t; simpl; lia. Qed.

Lemma size_arg f args x : In x args -> size x < size (TFun f args).
Proof.
  simpl. induction args as [|y l IH]; simpl; intros H; [contradiction|].
  destruct H as [H|H]; [subst; lia|]. specialize (IH H). lia.
Qed.

Lemma occurs_size th v a : occurs v a = true -> a <> TVar v -> size (th v) < size (app th a).
Proof.
  induction a as [c|z|w|f args IH] using term_ind'; simpl; intros O N; try discriminate.
  - apply Nat.eqb_eq in O. subst. congruence.
  - apply existsb_exists in O as [x [Hin Ox]].
    rewrite Forall_forall in IH.
    assert (size (th v) <= size (app th x)).
    { destruct x as [c|z|w|g l]; simpl in Ox; try discriminate.
      - apply Nat.eqb_eq in Ox; subst. simpl. lia.
      - assert (Hn: TFun g l <> TVar v) by discriminate.
        specialize (IH _ Hin Ox Hn). lia. }
    assert (In (app th x) (map (app th) args)) by (apply in_map; exact Hin).
    pose proof (@size_arg f _ _ H0). simpl in H1. lia.
Qed.

Definition complete_at (th:sub) (k:nat) :=
  forall s t1 t2, size (app th t1) < k -> wf s -> sat th s -> app th t1 = app th t2 ->
  exists s', unify k s t1 t2 = UOk s' /\ sat th s'.

Lemma arr_complete th k : complete_at th k ->
  forall xs ys s, (forall x, In x xs -> size (app th x) < k) -> wf s -> sat th s ->
  map (app th) xs = map (app th) ys ->
  exists s', arr (unify k) xs ys s = UOk s' /\ sat th s'.
Proof.
  intros HC. induction xs as [|a ar IH]; intros [|b br] s Hs W St E; simpl in E; try discriminate.
  - exists s; split; auto.
  - inversion E. destruct (HC s a b) as [s1 [U1 S1]]; auto. { apply Hs; left; reflexivity. }
    simpl. rewrite U1. destruct (unify_sound _ _ _ W U1) as [W1 _].
    apply IH; auto. intros x Hx; apply Hs; right; exact Hx.
Qed.

Theorem unify_complete th : forall k, complete_at th k.
Proof.
  induction k as [|k IH]; intros s t1 t2 Hk W St E; [lia|].
  assert (E1: app th (den s t1) = app th t1) by apply St.
  assert (E2: app th (den s t2) = app th t2) by apply St.
  assert (EE: app th (den s t1) = app th (den s t2)) by congruence.
  pose proof (den_free W t1) as F1. pose proof (den_free W t2) as F2.
  simpl.
  destruct (den s t1) as [x|x|v|f xs] eqn:D1; destruct (den s t2) as [y|y|w|g ys] eqn:D2;
    simpl in EE; try discriminate.
  - inversion EE; subst. rewrite Nat.eqb_refl. exists s; auto.
  - simpl. eexists; split; [reflexivity|]. apply sat_bind; auto.
  - inversion EE; subst. rewrite Z.eqb_refl. exists s; auto.
  - simpl. eexists; split; [reflexivity|]. apply sat_bind; auto.
  - simpl. eexists; split; [reflexivity|]. apply sat_bind; auto.
  - simpl. eexists; split; [reflexivity|]. apply sat_bind; auto.
  - destruct (Nat.eqb v w) eqn:Evw; [exists s; auto|].
    eexists; split; [reflexivity|]. apply sat_bind; auto.
  - destruct (occurs v (TFun g ys)) eqn:O.
    + exfalso. assert (N: TFun g ys <> TVar v) by discriminate.
      pose proof (@occurs_size th _ _ O N) as L. simpl in L. rewrite EE in L. simpl in L. lia.
    + eexists; split; [reflexivity|]. apply sat_bind; auto.
  - destruct (occurs w (TFun f xs)) eqn:O.
    + exfalso. assert (N: TFun f xs <> TVar w) by discriminate.
      pose proof (@occurs_size th _ _ O N) as L. simpl in L. rewrite <- EE in L. simpl in L. lia.
    + eexists; split; [reflexivity|]. apply sat_bind; auto.
  - inversion EE; subst. rewrite Nat.eqb_refl.
    assert (Len: length xs = length ys).
    { rewrite <- (map_length (app th) xs), <- (map_length (app th) ys), H1. reflexivity. }
    rewrite Len, Nat.eqb_refl.
    apply arr_complete; auto.
    intros x Hx. assert (In (app th x) (map (app th) xs)) by (apply in_map; exact Hx).
    pose proof (@size_arg g _ _ H). rewrite <- E1 in Hk. simpl in Hk, H0. lia.
Qed.
Print Assumptions unify_complete.

(* readable corollary: if any substitution that respects the current bindings unifies the two terms,
   unification succeeds with enough fuel, the result is acyclic, extends the store, equates the terms,
   and every such substitution is an instance of the result (most general). *)
Corollary unify_mgu s t1 t2 th : wf s -> sat th s -> app th t1 = app th t2 ->
  exists n s', unify n s t1 t2 = UOk s' /\ wf s' /\ ext s s' /\ den s' t1 = den s' t2 /\ sat th s'.
Proof.
  intros W St E. destruct (@unify_complete th (S (size (app th t1))) s t1 t2) as [s' [U S']]; auto.
  destruct (unify_sound _ _ _ W U) as [W' [X D]]. exists (S (size (app th t1))), s'. auto.
Qed.
