(* PROTOTYPE: the engine's unification algorithm over a triangular store, and its soundness *)
From Coq Require Import List Arith Bool Lia ZArith.
Import ListNotations.
From U Require Import Term.
Set Implicit Arguments.

Inductive ures := UOk (s:store) | UFail | UOof | UCyc.

Section Arr.
  Variable U : store -> term -> term -> ures.
  Fixpoint arr (xs ys:list term) (s:store) : ures :=
    match xs, ys with
    | [], [] => UOk s
    | a::ar, b::br => match U s a b with UOk s1 => arr ar br s1 | r => r end
    | _, _ => UFail end.
End Arr.

Fixpoint unify (n:nat) (s:store) (t1 t2:term) : ures :=
  match n with O => UOof | S n =>
    let a1 := den s t1 in let a2 := den s t2 in
    match a1, a2 with
    | TVar v, TVar w => if Nat.eqb v w then UOk s else UOk ((v,a2)::s)
    | TVar v, _ => if occurs v a2 then UCyc else UOk ((v,a2)::s)
    | _, TVar w => if occurs w a1 then UCyc else UOk ((w,a1)::s)
    | TAtom x, TAtom y => if Nat.eqb x y then UOk s else UFail
    | TInt x, TInt y => if Z.eqb x y then UOk s else UFail
    | TFun f xs, TFun g ys =>
        if Nat.eqb f g then (if Nat.eqb (length xs) (length ys) then arr (unify n) xs ys s else UFail) else UFail
    | _, _ => UFail
    end end.

Definition ext (s s':store) := exists nw, s' = nw ++ s.
Lemma ext_refl s : ext s s. Proof. exists []; reflexivity. Qed.
Lemma ext_trans a b c : ext a b -> ext b c -> ext a c.
Proof. intros [n1 E1] [n2 E2]. exists (n2++n1). subst. rewrite app_assoc. reflexivity. Qed.

Lemma den_eq_ext s s' a b : ext s s' -> den s a = den s b -> den s' a = den s' b.
Proof. intros [nw E] H. subst. rewrite !den_app, H. reflexivity. Qed.

Definition sound_at (U:store -> term -> term -> ures) :=
  forall s t1 t2 s', wf s -> U s t1 t2 = UOk s' -> wf s' /\ ext s s' /\ den s' t1 = den s' t2.

Lemma arr_sound U : sound_at U ->
  forall xs ys s s', wf s -> arr U xs ys s = UOk s' ->
  wf s' /\ ext s s' /\ map (den s') xs = map (den s') ys.
Proof.
  intros HU. induction xs as [|a ar IH]; intros [|b br] s s' W H; simpl in H; try discriminate.
  - inversion H; subst. repeat split; auto using ext_refl.
  - destruct (U s a b) as [s1| | |] eqn:E; try discriminate.
    destruct (HU _ _ _ _ W E) as [W1 [X1 D1]].
    destruct (IH _ _ _ W1 H) as [W2 [X2 D2]].
    repeat split; auto; [eapply ext_trans; eauto|].
    simpl. rewrite D2. f_equal. eapply den_eq_ext; eauto.
Qed.

Lemma bind_sound s v a t1 t2 :
  wf s -> den s t1 = TVar v -> den s t2 = a -> occurs v a = false ->
  let s' := (v,a)::s in wf s' /\ ext s s' /\ den s' t1 = den s' t2.
Proof.
  intros W E1 E2 O. simpl.
  assert (Fa: free_in s a) by (subst a; apply den_free; exact W).
  assert (Ia: den s a = a) by (apply den_id; exact Fa).
  assert (Lv: lookup v s = None).
  { apply (den_free W t1). rewrite E1. simpl. apply Nat.eqb_refl. }
  repeat split.
  - constructor; auto. rewrite Ia. exact O.
  - exists [(v,a)]. reflexivity.
  - rewrite E1, E2, Ia. simpl. rewrite Nat.eqb_refl. symmetry. apply subst1_noocc. exact O.
Qed.

Theorem unify_sound n : sound_at (unify n).
Proof.
  induction n as [|n IH]; intros s t1 t2 s' W H; [discriminate|].
  simpl in H.
  destruct (den s t1) as [x|x|v|f xs] eqn:E1; destruct (den s t2) as [y|y|w|g ys] eqn:E2; try discriminate.
  - destruct (Nat.eqb x y) eqn:E; [|discriminate]. inversion H; subst. apply Nat.eqb_eq in E; subst.
    repeat split; auto using ext_refl. congruence.
  - simpl in H. inversion H; subst. destruct (@bind_sound s w (TAtom x) t2 t1 W E2 E1 eq_refl) as [A [B C]].
    repeat split; auto.
  - destruct (Z.eqb x y) eqn:E; [|discriminate]. inversion H; subst. apply Z.eqb_eq in E; subst.
    repeat split; auto using ext_refl. congruence.
  - simpl in H. inversion H; subst. destruct (@bind_sound s w (TInt x) t2 t1 W E2 E1 eq_refl) as [A [B C]].
    repeat split; auto.
  - simpl in H. inversion H; subst. apply (@bind_sound s v (TAtom y) t1 t2 W E1 E2 eq_refl).
  - simpl in H. inversion H; subst. apply (@bind_sound s v (TInt y) t1 t2 W E1 E2 eq_refl).
  - destruct (Nat.eqb v w) eqn:E.
    + inversion H; subst. apply Nat.eqb_eq in E; subst. repeat split; auto using ext_refl. congruence.
    + inversion H; subst. apply (@bind_sound s v (TVar w) t1 t2 W E1 E2). simpl.
      rewrite Nat.eqb_sym. exact E.
  - destruct (occurs v (TFun g ys)) eqn:O; [discriminate|]. inversion H; subst.
    apply (@bind_sound s v (TFun g ys) t1 t2 W E1 E2 O).
  - destruct (occurs w (TFun f xs)) eqn:O; [discriminate|]. inversion H; subst.
    destruct (@bind_sound s w (TFun f xs) t2 t1 W E2 E1 O) as [A [B C]]. repeat split; auto.
  - destruct (Nat.eqb f g) eqn:Ef; [|discriminate]. destruct (Nat.eqb (length xs) (length ys)); [|discriminate].
    apply Nat.eqb_eq in Ef; subst g.
    destruct (arr_sound IH _ _ W H) as [W' [X D]]. repeat split; auto.
    destruct X as [nw X]. subst s'.
    rewrite <- (den_ext_den nw t1 W), <- (den_ext_den nw t2 W), E1, E2, !den_fun, D. reflexivity.
Qed.
Print Assumptions unify_sound.

(* non-vacuity: p(X, f(Y), X) = p(g(Z), f(a), W) *)
Example ex1 : exists s', unify 10 [] (TFun 0 [TVar 1; TFun 1 [TVar 2]; TVar 1]) (TFun 0 [TFun 2 [TVar 3]; TFun 1 [TAtom 7]; TVar 4]) = UOk s'
  /\ den s' (TVar 4) = TFun 2 [TVar 3] /\ den s' (TVar 2) = TAtom 7.
Proof. eexists. vm_compute. repeat split. Qed.
