#!/usr/bin/env python3
"""Writes MANIFEST.json from the table below (one entry per claimed property)."""
import json, os
HERE = os.path.dirname(os.path.dirname(os.path.abspath(__file__)))
props = [json.loads(l) for l in open(os.path.join(HERE, 'properties.jsonl'))]

COMMON_NOTE = ('Trusted: Coq 8.16.1 kernel (vm_compute used for in-Coq evaluation of the model on the correspondence cases; no native_compute, '
               'no extraction); the hand-written Gallina model is tied to /repo by differential execution on every run (harness generators, '
               'implementation driver, observation parser are trusted); CPython/ANTLR substrate is modelled, not verified. ')

CLAIMED = {
 'C02': dict(
   text='Machine-checked proof (Coq) about an executable model of engine.py unify/unify_arrays over a triangular binding store: soundness, '
        'completeness + most-generality for every unifier respecting the active bindings, failure => no unifier, symmetry, name/arity rule, '
        'fuel-independence; all closed under the global context. The model is tied to the code on every run by evaluating model (inside Coq) '
        'and implementation on the same generated unification problems (suspended binding stacks, swapped arguments, two engines) plus an '
        'intrinsic oracle (at most one yield, both sides dereference equal, bindings restored, symmetric outcome).',
   design_ref='DESIGN.md section 7, C02',
   note=COMMON_NOTE + 'Cyclic cases (model result UCyc) are unspecified by the property and only required not to hang.',
   technique='Coq proof (induction on fuel / size of the unified instance) + in-Coq differential correspondence'),
}

def main():
    checks = []
    na = []
    for p in props:
        pid = p['id']
        if pid in CLAIMED:
            c = CLAIMED[pid]
            checks.append({
                'property_id': pid,
                'quick_cmd': 'bin/check %s --tier quick' % pid,
                'thorough_cmd': 'bin/check %s --tier thorough' % pid,
                'evidence_file': 'evidence/%s.json' % pid,
                'replay_cmd_template': 'bin/check %s --replay {path}' % pid,
                'engine': 'coq-model+correspondence',
                'level_claimed': {'category': 'proof', 'text': c['text'], 'design_ref': c['design_ref']},
                'level_note': c['note'],
                'technique': c['technique'],
            })
        else:
            na.append({'property_id': pid, 'reason': 'check under construction in this session (DESIGN.md section 7 has the plan); not yet claimed'})
    m = {
     'version': 1,
     'setup_cmd': 'timeout 3000 tools/nothp make -C coq -j16',
     'hooks': {'guard': 'YLDPROLOG_VERIF',
               'enable': 'bin/check exports YLDPROLOG_VERIF=1 and PYTHONPATH=/repo/src for the processes that import the implementation; nothing is built',
               'baseline_off_cmd': 'cd /repo && env -u YLDPROLOG_VERIF /venv/bin/python -m pytest -ra -q -p no:cacheprovider --timeout=900 --continue-on-collection-errors',
               'source_commits': ['e073151'], 'add_only': True},
     'engines': [{'name': 'coq-model+correspondence', 'path': 'coq/theories + harness/',
                  'serves_properties': sorted(CLAIMED),
                  'kind_free_text': 'Coq 8.16.1 development (hand-written executable model + theorems) and a Python harness that evaluates the model inside Coq (vm_compute) and the implementation from /repo/src on the same generated cases'}],
     'checks': checks,
     'notes': 'see DESIGN.md; known_findings.json lists repaired defects (fixed:) and the one recorded finding KF-C06-1',
     'not_applicable': na,
    }
    json.dump(m, open(os.path.join(HERE, 'MANIFEST.json'), 'w'), indent=1)
    print('claimed:', sorted(CLAIMED), 'not yet:', [x['property_id'] for x in na])

if __name__ == '__main__':
    main()
