#!/usr/bin/env python3
"""Writes MANIFEST.json from the table below (one entry per claimed property)."""
import json, os
HERE = os.path.dirname(os.path.dirname(os.path.abspath(__file__)))
props = [json.loads(l) for l in open(os.path.join(HERE, 'properties.jsonl'))]

COMMON_NOTE = ('Trusted: Coq 8.16.1 kernel (vm_compute used for in-Coq evaluation of the model on the correspondence cases; no native_compute, '
               'no extraction); the hand-written Gallina model is tied to /repo by differential execution on every run (harness generators, '
               'implementation driver, observation parser are trusted); CPython/ANTLR substrate is modelled, not verified. ')

CLAIMED = {
 'C02': dict(
   text='Machine-checked proof (Coq) about an executable model of engine.py unify/unify_arrays over a triangular binding store: soundness, '
        'completeness + most-generality for every unifier respecting the active bindings, failure => no unifier, symmetry, name/arity rule, '
        'fuel-independence; all closed under the global context. The model is tied to the code on every run by evaluating model (inside Coq) '
        'and implementation on the same generated unification problems (suspended binding stacks, swapped arguments, two engines) plus an '
        'intrinsic oracle (at most one yield, both sides dereference equal, bindings restored, symmetric outcome).',
   design_ref='DESIGN.md section 7, C02',
   note=COMMON_NOTE + 'Cyclic cases (model result UCyc) are unspecified by the property and only required not to hang.',
   technique='Coq proof (induction on fuel / size of the unified instance) + in-Coq differential correspondence'),
}

READY = ['C01', 'C02', 'C03', 'C04', 'C05', 'C06', 'C07', 'C08', 'C09', 'C10', 'C11', 'C12', 'C13', 'C14', 'C15', 'C16', 'C17', 'C18', 'C19', 'C20']   # properties whose check is registered

NOT_YET = {
 'C01': 'check exists (text/answer correspondence of compiled programs against the Coq model of the compiled code and the Coq SLD reference) but the program-level theorem is still being proved; not claimed until Properties/C01.v states it',
 'C05': 'as C01: control_correct is proved, its program-level instantiation is in progress',
 'C06': 'as C01: control_correct is proved, its program-level instantiation is in progress',
 'C09': 'as C01 (builtins are part of the machine model; theorems in progress)',
 'C04': 'model and check exist; Properties/C04.v does not yet state the non-interference theorems',
 'C11': 'text-equality check exists; emitter theorems in progress',
 'C12': 'repr part proved (Properties/C12R.v); emitter whitelist theorems and check in progress',
 'C17': 'model and theorems exist; harness module in progress',
 'C20': 'in progress',
}

def theorems_of(pid):
    import re
    src = open(os.path.join(HERE, 'coq', 'theories', 'Properties', pid + '.v'), encoding='utf8').read()
    return re.findall(r'^\s*(?:Theorem|Corollary)\s+([A-Za-z0-9_\']+)', src, re.M)

def claim_of(pid):
    f = os.path.join(HERE, 'notes', pid + '.manifest.json')
    if os.path.exists(f):
        c = json.load(open(f))
        c.setdefault('design_ref', 'DESIGN.md section 7, ' + pid)
        c['note'] = COMMON_NOTE + c.get('note', '')
        return c
    if pid in CLAIMED:
        return CLAIMED[pid]
    sys.path.insert(0, os.path.join(HERE, 'harness'))
    import importlib
    mod = importlib.import_module('props.' + pid.lower())
    ths = theorems_of(pid)
    return dict(
        text='Machine-checked proof (Coq) of %d theorems about a hand-written executable model of the anchored code (%s), all closed under the global context (Print Assumptions re-run by the check). The model is tied to /repo on every run by evaluating it inside Coq (vm_compute) and the implementation on the same generated cases and comparing canonical observations, plus an oracle that evaluates the property directly on the implementation. Cases: %s' % (len(ths), ', '.join(ths), getattr(mod, 'RULE', '')),
        design_ref='DESIGN.md section 7, ' + pid,
        note=COMMON_NOTE,
        technique='Coq proof (induction / invariants / refinement over the model) + in-Coq differential correspondence')

def main():
    import sys
    globals()['sys'] = sys
    checks = []
    na = []
    for p in props:
        pid = p['id']
        if pid in READY:
            c = claim_of(pid)
            checks.append({
                'property_id': pid,
                'quick_cmd': 'bin/check %s --tier quick' % pid,
                'thorough_cmd': 'bin/check %s --tier thorough' % pid,
                'evidence_file': 'evidence/%s.json' % pid,
                'replay_cmd_template': 'bin/check %s --replay {path}' % pid,
                'engine': 'coq-model+correspondence',
                'level_claimed': {'category': 'proof', 'text': c['text'], 'design_ref': c['design_ref']},
                'level_note': c['note'],
                'technique': c['technique'],
            })
        else:
            na.append({'property_id': pid, 'reason': NOT_YET.get(pid, 'in progress')})
    m = {
     'version': 1,
     'setup_cmd': 'timeout 3000 tools/nothp make -C coq -j16',
     'hooks': {'guard': 'YLDPROLOG_VERIF',
               'enable': 'bin/check exports YLDPROLOG_VERIF=1 and PYTHONPATH=/repo/src for the processes that import the implementation; nothing is built. The only hook in the repository is the guarded weak set of created Variables (commit e073151). Independently of it some check modules instrument the engine inside their own process without touching the repository (creation serial numbers on Variables and a wrapper around findall/3: harness/lib/semcheck.py; instance-attribute wrappers with step budgets around assert_fact/match_dynamic: harness/props/dbcommon.py).',
               'baseline_off_cmd': 'cd /repo && env -u YLDPROLOG_VERIF /venv/bin/python -m pytest -ra -q -p no:cacheprovider --timeout=900 --continue-on-collection-errors',
               'source_commits': ['e073151'], 'add_only': True},
     'engines': [{'name': 'coq-model+correspondence', 'path': 'coq/theories + harness/',
                  'serves_properties': READY,
                  'kind_free_text': 'Coq 8.16.1 development (hand-written executable model + theorems) and a Python harness that evaluates the model inside Coq (vm_compute) and the implementation from /repo/src on the same generated cases'}],
     'checks': checks,
     'notes': 'see DESIGN.md; known_findings.json lists the repaired defects (fixed: D1-D22, incl. the former finding KF-C06-1); no known finding is open',
     'not_applicable': na,
    }
    json.dump(m, open(os.path.join(HERE, 'MANIFEST.json'), 'w'), indent=1)
    print('claimed:', READY, 'not yet:', [x['property_id'] for x in na])

if __name__ == '__main__':
    main()
