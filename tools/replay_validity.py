#!/usr/bin/env python3
"""usage: tools/replay_validity.py ID-X ... [--jobs N]
For every given seeded change: run its property's check against the changed tree (scratch worktree), take the replay files the
check reports, and re-run each of them (bin/check <P> --replay FILE) against the UNCHANGED /repo: a replay that still fails
there is not a witness of the change but an artefact of shrinking (a case the generators never produce, judged by an oracle
whose annotations no longer fit).  Prints one line per replay; exit 1 if any replay fails on the unchanged tree."""
import os, sys, json, subprocess, concurrent.futures, threading
HERE = os.path.dirname(os.path.dirname(os.path.abspath(__file__)))
LOCK = threading.Lock()

def one(sid):
    prop = sid.split('-')[0]
    wt = '/tmp/rw/rv-%s-%d' % (sid, os.getpid())
    os.makedirs('/tmp/rw', exist_ok=True)
    with LOCK:
        subprocess.run(['git', '-C', '/repo', 'worktree', 'add', '-q', '--detach', wt, 'HEAD'], check=True)
    out = []
    try:
        r = subprocess.run(['git', '-C', wt, 'apply', os.path.join(HERE, 'seeded', sid, 'patch.diff')], capture_output=True, text=True)
        if r.returncode:
            return [(sid, 'PATCH-DOES-NOT-APPLY', '')]
        env = dict(os.environ, VERIF_REPO=wt, VERIF_JOBS='4', VERIF_COQ_JOBS='4', VERIF_REPLAY_TAG='rv-' + sid,
                   VERIF_EVIDENCE_DIR=os.path.join(HERE, '.work', 'rv-evidence'))
        r = subprocess.run([os.path.join(HERE, 'bin', 'check'), prop], capture_output=True, text=True, env=env, timeout=3000)
        files = [l.split('replay=')[1].split()[0] for l in (r.stdout + r.stderr).split('\n') if l.startswith('VIOLATION') and 'no-failing-input-found' not in l]
        if not files:
            return [(sid, 'NO-REPLAY (rc=%d)' % r.returncode, '')]
        env2 = dict(os.environ, VERIF_JOBS='2', VERIF_COQ_JOBS='2', VERIF_EVIDENCE_DIR=os.path.join(HERE, '.work', 'rv-evidence'))
        env2.pop('VERIF_REPO', None)
        for f in files:
            rc_clean = subprocess.run([os.path.join(HERE, 'bin', 'check'), prop, '--replay', f], capture_output=True, text=True, env=env2, timeout=1200).returncode
            rc_mut = subprocess.run([os.path.join(HERE, 'bin', 'check'), prop, '--replay', f], capture_output=True, text=True, env=dict(env2, VERIF_REPO=wt), timeout=1200).returncode
            ok = rc_clean == 0 and rc_mut == 1
            out.append((sid, 'ok' if ok else 'BAD (unchanged tree: exit %d, changed tree: exit %d)' % (rc_clean, rc_mut), f))
            if ok:
                try: os.remove(f)
                except OSError: pass
        return out
    finally:
        with LOCK:
            subprocess.run(['git', '-C', '/repo', 'worktree', 'remove', '--force', wt])

def main():
    ids = [a for a in sys.argv[1:] if a[:1] == 'C']
    jobs = int(sys.argv[sys.argv.index('--jobs') + 1]) if '--jobs' in sys.argv else 4
    bad = 0
    with concurrent.futures.ThreadPoolExecutor(jobs) as ex:
        for res in ex.map(one, ids):
            for sid, st, f in res:
                print('%-7s %-60s %s' % (sid, st, f), flush=True)
                bad += st.startswith('BAD')
    sys.exit(1 if bad else 0)

if __name__ == '__main__':
    main()
