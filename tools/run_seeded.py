#!/usr/bin/env python3
"""usage: tools/run_seeded.py [ID-X ...] [--check CID] [--jobs N] [--tier quick]
For every seeded change (default: all under seeded/), in its own scratch worktree of /repo under
/tmp/rw: apply patch.diff, run `VERIF_REPO=<wt> bin/check <property>`, record whether a VIOLATION
was reported.  The scratch worktree is removed afterwards.  Nothing is ever applied in /repo.
Prints one line per change and writes seeded/RESULTS.json.  --check CID runs check CID instead
of the change's own property (cross-detection)."""
import os, sys, json, subprocess, concurrent.futures, argparse, shutil, time, threading
GIT_LOCK = threading.Lock()   # concurrent `git worktree add/remove` on one repository race with each other
HERE = os.path.dirname(os.path.dirname(os.path.abspath(__file__)))

def run_one(args):
    sid, cid, tier = args
    prop = cid or sid.split('-')[0]
    wt = '/tmp/rw/seed-%s-%s-%d' % (sid, prop, os.getpid())
    os.makedirs('/tmp/rw', exist_ok=True)
    with GIT_LOCK:
        subprocess.run(['git', '-C', '/repo', 'worktree', 'add', '-q', '--detach', wt, 'HEAD'], check=True)
    try:
        r = subprocess.run(['git', '-C', wt, 'apply', os.path.join(HERE, 'seeded', sid, 'patch.diff')], capture_output=True, text=True)
        if r.returncode != 0:
            return sid, prop, 'PATCH-DOES-NOT-APPLY', r.stderr[-300:], 0
        env = dict(os.environ, VERIF_REPO=wt, VERIF_JOBS='4', VERIF_COQ_JOBS='4', VERIF_REPLAY_TAG='seeded-' + sid,
                   VERIF_EVIDENCE_DIR=os.path.join(HERE, '.work', 'seeded-evidence'))
        t0 = time.time()
        r = subprocess.run([os.path.join(HERE, 'bin', 'check'), prop, '--tier', tier], capture_output=True, text=True, env=env, timeout=3000)
        out = r.stdout + r.stderr
        viol = [l for l in out.split('\n') if l.startswith('VIOLATION')]
        why = ''
        if viol:
            try:
                p = viol[0].split('replay=')[1].split()[0]
                d = json.load(open(p))
                why = (d.get('reason') or json.dumps(d.get('broken'))[:200] or '')[:200]
            except Exception as e:
                why = '?'
        status = 'DETECTED' if (r.returncode == 1 and viol) else ('MISSED' if r.returncode == 0 else 'ERROR rc=%d %s' % (r.returncode, out[-300:]))
        return sid, prop, status, why, round(time.time() - t0, 1)
    finally:
        with GIT_LOCK:
            subprocess.run(['git', '-C', '/repo', 'worktree', 'remove', '--force', wt])

def main():
    ap = argparse.ArgumentParser()
    ap.add_argument('ids', nargs='*')
    ap.add_argument('--check')
    ap.add_argument('--matrix', help='comma separated list of check ids: run every given seeded change against each of them (cross detection); results in seeded/MATRIX.json')
    ap.add_argument('--jobs', type=int, default=4)
    ap.add_argument('--tier', default='quick')
    a = ap.parse_args()
    ids = a.ids or sorted(d for d in os.listdir(os.path.join(HERE, 'seeded')) if os.path.isdir(os.path.join(HERE, 'seeded', d)))
    if a.matrix:
        checks = a.matrix.split(',')
        jobs_ = [(i, c, a.tier) for i in ids for c in checks if c != i.split('-')[0]]
        mp = os.path.join(HERE, 'seeded', 'MATRIX.json')
        mat = json.load(open(mp)) if os.path.exists(mp) else {}
        with concurrent.futures.ThreadPoolExecutor(a.jobs) as ex:
            for sid, prop, status, why, t in ex.map(run_one, jobs_):
                print('%-7s by %-5s %-9s %5.1fs  %s' % (sid, prop, status.split()[0], t, why[:100]), flush=True)
                mat.setdefault(sid, {})[prop] = status.split()[0]
                json.dump(mat, open(mp, 'w'), indent=1, sort_keys=True)
        return
    res = {}
    with concurrent.futures.ThreadPoolExecutor(a.jobs) as ex:
        for sid, prop, status, why, t in ex.map(run_one, [(i, a.check, a.tier) for i in ids]):
            print('%-7s by %-5s %-9s %5.1fs  %s' % (sid, prop, status, t, why), flush=True)
            res[sid + ':' + prop] = {'status': status, 'why': why}
    p = os.path.join(HERE, 'seeded', 'RESULTS.json')
    old = json.load(open(p)) if os.path.exists(p) else {}
    old.update(res)
    json.dump(old, open(p, 'w'), indent=1, sort_keys=True)

if __name__ == '__main__':
    main()
