#!/usr/bin/env python3
"""Prints the markdown table of DESIGN.md section 11 from seeded/*/meta.json, seeded/*/notes.md and
seeded/RESULTS.json (written by tools/run_seeded.py), and updates meta.json: detected_by."""
import os, json, re, sys
HERE = os.path.dirname(os.path.dirname(os.path.abspath(__file__)))
res = json.load(open(os.path.join(HERE, 'seeded', 'RESULTS.json')))

def summary(sid):
    d = os.path.join(HERE, 'seeded', sid)
    notes = open(os.path.join(d, 'notes.md'), encoding='utf8').read()
    letter = {'A': 'A', 'B': 'B', 'C': 'A', 'D': 'B', 'E': 'A', 'F': 'B', 'G': 'A', 'H': 'B', 'I': 'A', 'J': 'B', 'K': 'A', 'L': 'B'}[sid.split('-')[1]]
    m = re.search(r'^#+\s*(?:Change\s+)?%s\b[^\n]*' % letter, notes, re.M | re.I)
    if m:
        t = re.sub(r'^#+\s*', '', m.group(0)).strip()
        t = re.sub(r'\s*\(?[AB]\.patch\.diff\)?', '', t)
        return t[:150]
    patch = open(os.path.join(d, 'patch.diff'), encoding='utf8').read()
    files = sorted(set(re.findall(r'^\+\+\+ b/(\S+)', patch, re.M)))
    return 'change in ' + ', '.join(os.path.basename(f) for f in files)

rows = []
for sid in sorted(d for d in os.listdir(os.path.join(HERE, 'seeded')) if os.path.isdir(os.path.join(HERE, 'seeded', d))):
    pid = sid.split('-')[0]
    r = res.get('%s:%s' % (sid, pid))
    status = r['status'].split()[0] if r else 'not run'
    why = (r or {}).get('why', '')
    if status == 'MISSED':
        # cross detection: the change is caught by the check of another property (tools/run_seeded.py --check)
        others = sorted(k.split(':')[1] for k, v in res.items() if k.startswith(sid + ':') and k != '%s:%s' % (sid, pid) and v['status'].startswith('DETECTED'))
        if others:
            o = others[0]
            status = 'MISSED by %s, DETECTED by %s' % (pid, ', '.join(others))
            why = '(%s) %s' % (o, res['%s:%s' % (sid, o)].get('why', ''))
    why = re.sub(r'\s+', ' ', why)[:140]
    rows.append((sid, summary(sid), status, why))
    mp = os.path.join(HERE, 'seeded', sid, 'meta.json')
    meta = json.load(open(mp))
    meta['detected_by'] = ('bin/check %s (quick tier, seed 0): %s' % (pid, why)) if status == 'DETECTED' else (status + ': ' + why if status.startswith('MISSED by') else ('NOT detected by bin/check %s quick tier seed 0' % pid if status == 'MISSED' else None))
    json.dump(meta, open(mp, 'w'), indent=1)

print('| change | what it is | result | how the check reports it |')
print('|---|---|---|---|')
for sid, s, st, why in rows:
    print('| %s | %s | %s | %s |' % (sid, s.replace('|', '/'), st, why.replace('|', '/')))
det = sum(1 for r in rows if 'DETECTED' in r[2])
print('\n%d of %d seeded changes are detected by the quick tier with the default seed.' % (det, len(rows)), file=sys.stderr)
