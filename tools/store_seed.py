#!/usr/bin/env python3
"""usage: tools/store_seed.py <ID> <srcdir>   - validates A/B from a seeding agent's directory in a scratch worktree of
/repo (tools/validate_seeded.sh) and stores them as seeded/<ID>-C and seeded/<ID>-D (or -E/-F with a third argument EF)"""
import os, sys, shutil, json, subprocess
HERE = os.path.dirname(os.path.dirname(os.path.abspath(__file__)))
pid, src = sys.argv[1], sys.argv[2]
letters = sys.argv[3] if len(sys.argv) > 3 else 'CD'
rnd = {'CD': 2, 'EF': 3, 'GH': 4, 'IJ': 5, 'KL': 6}[letters]
head = subprocess.run(['git', '-C', '/repo', 'log', '--format=%h', '-1'], capture_output=True, text=True).stdout.strip()
notes = open(os.path.join(src, 'notes.md')).read()
for x, new in (('A', letters[0]), ('B', letters[1])):
    r = subprocess.run(['bash', os.path.join(HERE, 'tools', 'validate_seeded.sh'), src, pid, x], capture_output=True, text=True)
    line = (r.stdout + r.stderr).strip().split('\n')[-1]
    print(line)
    ok = 'clean_demo_exit=0 mutant_demo_exit=1' in line and '61 passed' in line
    if not ok:
        print('  NOT stored')
        continue
    d = os.path.join(HERE, 'seeded', '%s-%s' % (pid, new))
    os.makedirs(d, exist_ok=True)
    shutil.copy(os.path.join(src, '%s.patch.diff' % x), os.path.join(d, 'patch.diff'))
    shutil.copy(os.path.join(src, 'demo_%s.py' % x), os.path.join(d, 'demo.py'))
    open(os.path.join(d, 'notes.md'), 'w').write(notes)
    json.dump({"id": "%s-%s" % (pid, new), "breaks_property": pid,
               "origin": "round %d (2026-09-29):" % rnd + " written by a fresh sub-agent that saw only the property text and a scratch worktree of the repo (nothing from /verif)" + (", asked for a subtle change" if rnd in (2, 3, 4, 6) else ", plain prompt (a regression a code review could miss)"),
               "needs_to_manifest": "see notes.md (section for change %s)" % x,
               "validated": {"by": "tools/validate_seeded.sh in a scratch worktree of /repo at HEAD " + head, "tests_with_patch": "61 passed", "demo_with_patch_exit": 1, "demo_without_patch_exit": 0},
               "detected_by": None}, open(os.path.join(d, 'meta.json'), 'w'), indent=1)
