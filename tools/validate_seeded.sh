#!/bin/bash
# usage: validate_seeded.sh <src_dir with X.patch.diff, demo_X.py> <ID> <X>   -> prints result line
# confirms in a scratch worktree of /repo: patch applies, 61 tests pass, demo fails with / passes without
SRC=$1; ID=$2; X=$3
WT=/tmp/rw/validate-$ID-$X
git -C /repo worktree add -q --detach $WT HEAD || exit 2
trap "git -C /repo worktree remove --force $WT" EXIT
cd $WT
PYTHONPATH=$WT/src /venv/bin/python $SRC/demo_$X.py > /tmp/rw/out-$ID-$X-clean.txt 2>&1; CLEAN=$?
git apply $SRC/$X.patch.diff || { echo "$ID $X: PATCH DOES NOT APPLY"; exit 1; }
TESTS=$(PYTHONPATH=$WT/src /venv/bin/python -m pytest -q -p no:cacheprovider --timeout=900 2>&1 | tail -1)
PYTHONPATH=$WT/src /venv/bin/python $SRC/demo_$X.py > /tmp/rw/out-$ID-$X-mut.txt 2>&1; MUT=$?
git checkout -q -- .
echo "$ID $X: clean_demo_exit=$CLEAN mutant_demo_exit=$MUT tests='$TESTS'"
